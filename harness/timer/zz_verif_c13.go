package timer

import (
	"context"
	"time"

	"github.com/qri-io/iso8601"

	"github.com/olive-io/bpmn/schema"
	"github.com/olive-io/bpmn/v2/pkg/clock"
)

// C13.b: real timer.New / dateTimeTimer / recurringTimer against the real mock clock.
// The ISO-8601 parsers are replaced by stubs returning the scenario's parsed value.
var verifDate time.Time
var verifDur time.Duration
var verifRI iso8601.RepeatingInterval

func verifParseTime(s string) (time.Time, error) { return verifDate, nil }
func verifParseDuration(s string) (iso8601.Duration, error) {
	return iso8601.Duration{Duration: verifDur}, nil
}
func verifParseRepeatingInterval(s string) (iso8601.RepeatingInterval, error) { return verifRI, nil }

func verifSort(data interface {
	Len() int
	Less(i, j int) bool
	Swap(i, j int)
}) {
	n := data.Len()
	for i := 1; i < n; i++ {
		for j := i; j > 0 && data.Less(j, j-1); j-- {
			data.Swap(j, j-1)
		}
	}
}

var verifGrid = 9

const (
	verifT0   = int64(100) // clock at creation
	verifIntv = int64(10)
)

func verifAt(ns int64) time.Time { return time.Unix(0, ns) }

func verifDef(kind int) schema.TimerEventDefinition {
	d := schema.DefaultTimerEventDefinition()
	e := schema.DefaultExpression()
	e.SetTextPayload("stubbed")
	ae := &schema.AnExpression{Expression: &e}
	switch kind {
	case 0:
		d.SetTimeDate(ae)
	case 1:
		d.SetTimeDuration(ae)
	default:
		d.SetTimeCycle(ae)
	}
	return d
}

type verifRun struct {
	m       *clock.Mock
	ctx     context.Context
	cancel  context.CancelFunc
	ch      chan schema.TimerEventDefinition
	fires   int64
	closed  int64
	sets    int64
	start   int64 // nominal start of a cycle / due time of a date or duration timer
	n       int   // repetitions (cycle), -1 unbounded
	end     int64 // 0: none
	isCycle bool
}

func verifStartTimer(kind int) *verifRun {
	r := &verifRun{m: clock.NewMockAt(verifAt(verifT0))}
	r.ctx, r.cancel = context.WithCancel(context.Background())
	var err error
	r.ch, err = New(r.ctx, r.m, verifDef(kind))
	verifAssert(err == nil, "timer.New accepts a definition with exactly one of date, duration, cycle")
	return r
}

// the consumer of the timer channel; checks every firing against the clock
func (r *verifRun) reader() {
	for {
		_, ok := <-r.ch
		if !ok {
			verifAdd(&r.closed, 1)
			return
		}
		k := verifGet(&r.fires) + 1
		verifAdd(&r.fires, 1)
		now := r.m.Now().UnixNano()
		if r.isCycle {
			verifAssert(now >= r.start+k*verifIntv, "a cycle timer's k-th firing never comes before start + k intervals of clock time")
			if r.n >= 0 {
				verifAssert(k <= int64(r.n), "a cycle timer with repetition count n fires at most n times")
			}
			if r.end != 0 {
				verifAssert(r.start+k*verifIntv < r.end, "a cycle timer never fires at or after its end bound")
			}
		} else {
			verifAssert(now >= r.start, "a timer never fires before the clock reaches its due time")
			verifAssert(k == 1, "a date or duration timer fires at most once")
		}
	}
}

// clock moves: non-decreasing values on a grid of step 5 from the creation time up to +45
func (r *verifRun) move(last *int64) {
	v := verifT0 + 5*int64(verifChoice("move", 0, verifGrid))
	verifAssume(v >= *last)
	*last = v
	r.m.Set(verifAt(v))
	verifAdd(&r.sets, 1)
}

// date (kind 0) or duration (kind 1) timer, due on the grid; free-running clock thread
func verifC13Single(kind, moves int) {
	due := verifT0 + 5*int64(verifChoice("due", 0, 4)) // already due .. +20
	verifDate = verifAt(due)
	verifDur = time.Duration(due - verifT0)
	r := verifStartTimer(kind)
	r.start = due
	go r.reader()
	last := verifT0
	go func() {
		for i := 0; i < moves; i++ {
			r.move(&last)
		}
	}()
	verifQuiesce()
	verifReach("quiescent")
	if last >= due {
		verifAssert(verifGet(&r.fires) == 1, "a date or duration timer fires exactly once when the clock has reached its due time")
		verifAssert(verifGet(&r.closed) == 1, "the timer channel is closed after the last firing")
	} else {
		verifAssert(verifGet(&r.fires) == 0, "a timer whose due time was not reached has not fired")
	}
}

func VerifC13b_Date_M2()     { verifC13Single(0, 2) }
func VerifC13b_Duration_M2() { verifC13Single(1, 2) }
func VerifC13b_Date_M3()     { verifC13Single(0, 3) }

// cycle timer Rn[/start]/interval[/end]; the clock thread waits for quiescence before every move (as a test
// driver that sleeps between moves), so the number of firings is determined and compared with the reference count
func verifC13Cycle(n int, startOff int64, endOff int64, moves int, free bool) {
	verifRI = iso8601.RepeatingInterval{Repititions: n}
	verifRI.Interval.Duration = iso8601.Duration{Duration: time.Duration(verifIntv)}
	start := verifT0
	if startOff >= 0 {
		st := verifAt(verifT0 + startOff)
		verifRI.Interval.Start = &st
		start = verifT0 + startOff
	}
	var end int64
	if endOff > 0 {
		en := verifAt(verifT0 + endOff)
		verifRI.Interval.End = &en
		end = verifT0 + endOff
	}
	r := verifStartTimer(2)
	r.isCycle, r.start, r.n, r.end = true, start, n, end
	go r.reader()
	last := verifT0
	// reference model of the count under a quiescent driver
	ref := int64(0)
	t := start
	if free {
		go func() {
			for i := 0; i < moves; i++ {
				r.move(&last)
			}
		}()
	} else {
		for i := 0; i < moves; i++ {
			verifQuiesce()
			r.move(&last)
			c := last
			if c >= start && (n < 0 || ref < int64(n)) && c >= t+verifIntv && (end == 0 || c < end) {
				ref++
				t = c
			}
		}
	}
	verifQuiesce()
	verifReach("quiescent")
	f := verifGet(&r.fires)
	verifAssert(f <= verifGet(&r.sets), "consecutive firings of a cycle timer are at least one interval of clock time apart (no burst within one clock move)")
	if !free {
		verifAssert(f == ref, "a cycle timer fires exactly as often as its definition and the clock moves prescribe")
	}
	if n >= 0 && f == int64(n) {
		verifAssert(verifGet(&r.closed) == 1, "the timer channel is closed after the last firing")
	}
}

func VerifC13b_R2_M3()            { verifC13Cycle(2, -1, 0, 3, false) }
func VerifC13b_R2_M2()            { verifC13Cycle(2, -1, 0, 2, false) }
func VerifC13b_R2_Start_M2()      { verifGrid = 6; verifC13Cycle(2, 5, 0, 2, false) }
func VerifC13b_R2_Start_M1()      { verifC13Cycle(2, 5, 0, 1, false) }
func VerifC13b_R3_End_M2()        { verifGrid = 6; verifC13Cycle(3, -1, 26, 2, false) }
func VerifC13b_R0_M2()            { verifC13Cycle(0, -1, 0, 2, false) }
func VerifC13b_R1_M2()            { verifC13Cycle(1, -1, 0, 2, false) }
func VerifC13b_R3_M3()            { verifC13Cycle(3, -1, 0, 3, false) }
func VerifC13b_Rinf_M3()          { verifC13Cycle(-1, -1, 0, 3, false) }
func VerifC13b_R2_Start_M3()      { verifC13Cycle(2, 5, 0, 3, false) }
func VerifC13b_R3_End_M3()        { verifC13Cycle(3, -1, 26, 3, false) }
func VerifC13b_R2_StartEnd_M3()   { verifC13Cycle(2, 5, 31, 3, false) }
func VerifC13b_R2_Free_M2()       { verifC13Cycle(2, -1, 0, 2, true) }
func VerifC13b_R2_Start_Free_M2() { verifC13Cycle(2, 5, 0, 2, true) }

// cancellation: the timer is armed and waiting, the context is cancelled, and only then the clock reaches the due time
func verifC13Cancel(kind int) {
	verifDate = verifAt(verifT0 + 10)
	verifDur = time.Duration(10)
	verifRI = iso8601.RepeatingInterval{Repititions: 2}
	verifRI.Interval.Duration = iso8601.Duration{Duration: time.Duration(verifIntv)}
	r := verifStartTimer(kind)
	r.isCycle, r.start, r.n = kind == 2, verifT0, 2
	if kind != 2 {
		r.start = verifT0 + 10
	}
	go r.reader()
	verifQuiesce()
	r.cancel()
	r.m.Set(verifAt(verifT0 + 30))
	verifQuiesce()
	verifReach("quiescent")
	verifAssert(verifGet(&r.fires) == 0, "a timer never fires after its context was cancelled")
}

func VerifC13b_Cancel_Date()  { verifC13Cancel(0) }
func VerifC13b_Cancel_Cycle() { verifC13Cancel(2) }
