"""debug CLI: python3-vt gobmc/cli.py <harnessdir> <EntryFunc> [K]"""
import sys, os, time
sys.path.insert(0, os.path.dirname(os.path.abspath(__file__)))
import z3
from session import Session
from driver import Run
from vals import *

def main():
    hd, entry = sys.argv[1], sys.argv[2]
    K = int(sys.argv[3]) if len(sys.argv) > 3 else 40
    s = Session()
    print("loaded in %.1fs" % s.load_s)
    prog = s.program()
    ent = s.pkgpath(hd) + "." + entry
    sys.path.insert(0, os.path.join(os.path.dirname(os.path.dirname(os.path.abspath(__file__))), "checks"))
    import common
    ov = {"time.After": s.pkgpath(hd) + ".verifTimeAfter"}
    if hd == "root":
        for k, v in common.STD.items():
            ov[k] = s.pkgpath(hd) + "." + v
    inits = [s.pkgpath(hd)] + ([] if hd == "schema" else ["github.com/olive-io/bpmn/schema"])
    r = Run(prog, ent, K=K, verbose=True, overrides=ov, inits=inits, spawn_limits={"exclusiveGateway).run": 1, "inclusiveGateway).run": 1})
    t0 = time.time()
    r.execute()
    m = r.m
    print("executed in %.1fs; steps=%d quiescent_at=%s stats=%s" % (time.time() - t0, r.steps_done, r.quiescent_at, m.stats))
    print("functions:", len(prog.requested))
    print("constraints satisfiable:", r.solve()[0])
    for label, f in m.reached.items():
        res, model, dt = r.solve(f)
        print("reach %-20s %s (%.2fs)" % (label, res, dt))
    print("violations recorded:", len(m.violations))
    for (kind, cond, msg, pos, step) in m.violations:
        res, model, dt = r.solve(cond)
        print("  %-6s %-60s %s step=%s -> %s (%.2fs)" % (kind, msg[:60], pos, step, res, dt))
        if res == z3.sat:
            print("     nondets:", r.nondets_of(model))
            for e in r.schedule_of(model):
                print("     ", e)
            for e in r.log_of(model):
                print("     log", e)
    res, model, dt = r.solve(r.any_enabled_final)
    print("still enabled after last step:", res)
    if res == z3.sat and os.environ.get("SHOW"):
        for e in r.schedule_of(model):
            print("     ", e)
    s.close()

main()
