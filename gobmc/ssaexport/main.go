// ssaexport: loads Go packages from a scratch copy of the repository, builds go/ssa and serves
// functions / types on demand as JSON lines (stdin -> stdout). Used by gobmc (Python).
package main

import (
	"bufio"
	"encoding/json"
	"flag"
	"fmt"
	"go/constant"
	"go/token"
	"go/types"
	"io"
	"net"
	"os"
	"strings"
	"sync"

	"golang.org/x/tools/go/packages"
	"golang.org/x/tools/go/ssa"
	"golang.org/x/tools/go/ssa/ssautil"
)

type server struct {
	prog   *ssa.Program
	pkgs   map[string]*ssa.Package
	funcs  map[string]*ssa.Function
	types  map[string]types.Type
	fset   *token.FileSet
	built  map[*ssa.Package]bool
	allpkg map[string]*packages.Package
}

type J = map[string]any

func (s *server) tkey(t types.Type) string {
	if t == nil {
		return ""
	}
	k := types.TypeString(t, nil)
	if _, ok := s.types[k]; !ok {
		s.types[k] = t
	}
	return k
}

func (s *server) fname(f *ssa.Function) string {
	n := f.String()
	if prev, ok := s.funcs[n]; ok && prev != f {
		// disambiguate (rare: instantiations / wrappers with equal names)
		for i := 2; ; i++ {
			nn := fmt.Sprintf("%s#%d", n, i)
			if p, ok := s.funcs[nn]; !ok || p == f {
				n = nn
				break
			}
		}
	}
	s.funcs[n] = f
	return n
}

func (s *server) operand(fn *ssa.Function, regs map[ssa.Value]string, v ssa.Value) any {
	if v == nil {
		return nil
	}
	switch x := v.(type) {
	case *ssa.Const:
		o := J{"k": "c", "t": s.tkey(x.Type())}
		if x.Value == nil {
			o["v"] = nil
		} else {
			switch x.Value.Kind() {
			case constant.Bool:
				o["v"] = constant.BoolVal(x.Value)
			case constant.String:
				o["v"] = constant.StringVal(x.Value)
				o["s"] = true
			case constant.Int:
				o["v"] = x.Value.ExactString()
				o["i"] = true
			case constant.Float:
				f, _ := constant.Float64Val(x.Value)
				o["v"] = f
				o["f"] = true
				// an integer-typed const may have a Float representation
				if b, ok := x.Type().Underlying().(*types.Basic); ok && b.Info()&types.IsInteger != 0 {
					if iv := constant.ToInt(x.Value); iv.Kind() == constant.Int {
						o["v"] = iv.ExactString()
						o["i"] = true
						delete(o, "f")
					}
				}
			default:
				o["v"] = x.Value.ExactString()
				o["x"] = true
			}
		}
		return o
	case *ssa.Global:
		return J{"k": "g", "n": x.Pkg.Pkg.Path() + "." + x.Name(), "t": s.tkey(x.Type())}
	case *ssa.Function:
		return J{"k": "f", "n": s.fname(x)}
	case *ssa.Builtin:
		return J{"k": "b", "n": x.Name()}
	}
	if n, ok := regs[v]; ok {
		return J{"k": "r", "n": n}
	}
	return J{"k": "?", "n": v.Name()}
}

func (s *server) pos(p token.Pos) string {
	if !p.IsValid() {
		return ""
	}
	ps := s.fset.Position(p)
	f := ps.Filename
	if i := strings.LastIndex(f, "/"); i >= 0 {
		f = f[i+1:]
	}
	return fmt.Sprintf("%s:%d", f, ps.Line)
}

func (s *server) callCommon(fn *ssa.Function, regs map[ssa.Value]string, c *ssa.CallCommon) J {
	o := J{}
	args := []any{}
	for _, a := range c.Args {
		args = append(args, s.operand(fn, regs, a))
	}
	o["args"] = args
	if c.IsInvoke() {
		o["mode"] = "invoke"
		o["recv"] = s.operand(fn, regs, c.Value)
		o["method"] = c.Method.Name()
		o["mpkg"] = ""
		if c.Method.Pkg() != nil {
			o["mpkg"] = c.Method.Pkg().Path()
		}
		o["itype"] = s.tkey(c.Value.Type())
	} else {
		switch v := c.Value.(type) {
		case *ssa.Function:
			o["mode"] = "static"
			o["fn"] = s.fname(v)
		case *ssa.Builtin:
			o["mode"] = "builtin"
			o["fn"] = v.Name()
			at := []string{}
			for _, a := range c.Args {
				at = append(at, s.tkey(a.Type()))
			}
			o["argt"] = at
		default:
			o["mode"] = "dynamic"
			o["value"] = s.operand(fn, regs, c.Value)
		}
	}
	o["sig"] = s.tkey(c.Signature())
	return o
}

func (s *server) exportFunc(fn *ssa.Function) J {
	if fn.Pkg != nil && !s.built[fn.Pkg] {
		fn.Pkg.Build()
		s.built[fn.Pkg] = true
	}
	out := J{"name": s.fname(fn), "synthetic": fn.Synthetic}
	if fn.Pkg != nil {
		out["pkg"] = fn.Pkg.Pkg.Path()
	}
	regs := map[ssa.Value]string{}
	params := []any{}
	for i, p := range fn.Params {
		n := fmt.Sprintf("$p%d", i)
		regs[p] = n
		params = append(params, J{"n": n, "t": s.tkey(p.Type()), "src": p.Name()})
	}
	out["params"] = params
	fvs := []any{}
	for i, p := range fn.FreeVars {
		n := fmt.Sprintf("$f%d", i)
		regs[p] = n
		fvs = append(fvs, J{"n": n, "t": s.tkey(p.Type()), "src": p.Name()})
	}
	out["freevars"] = fvs
	out["sig"] = s.tkey(fn.Signature)
	res := []string{}
	for i := 0; i < fn.Signature.Results().Len(); i++ {
		res = append(res, s.tkey(fn.Signature.Results().At(i).Type()))
	}
	out["results"] = res
	if fn.Blocks == nil {
		out["external"] = true
		return out
	}
	for _, b := range fn.Blocks {
		for _, ins := range b.Instrs {
			if v, ok := ins.(ssa.Value); ok {
				regs[v] = v.Name()
			}
		}
	}
	if fn.Recover != nil {
		out["recover"] = fn.Recover.Index
	}
	blocks := []any{}
	ninstr := 0
	for _, b := range fn.Blocks {
		jb := J{"i": b.Index}
		preds := []int{}
		for _, p := range b.Preds {
			preds = append(preds, p.Index)
		}
		succs := []int{}
		for _, p := range b.Succs {
			succs = append(succs, p.Index)
		}
		jb["preds"] = preds
		jb["succs"] = succs
		jb["comment"] = b.Comment
		instrs := []any{}
		for _, ins := range b.Instrs {
			ji := s.instr(fn, regs, ins)
			if ji == nil {
				continue
			}
			ji["pos"] = s.pos(ins.Pos())
			instrs = append(instrs, ji)
			ninstr++
		}
		jb["instrs"] = instrs
		blocks = append(blocks, jb)
	}
	out["blocks"] = blocks
	out["ninstr"] = ninstr
	return out
}

func (s *server) instr(fn *ssa.Function, regs map[ssa.Value]string, ins ssa.Instruction) J {
	op := func(v ssa.Value) any { return s.operand(fn, regs, v) }
	o := J{}
	if v, ok := ins.(ssa.Value); ok {
		o["r"] = v.Name()
		o["t"] = s.tkey(v.Type())
	}
	switch x := ins.(type) {
	case *ssa.DebugRef:
		return nil
	case *ssa.Alloc:
		o["op"] = "Alloc"
		o["heap"] = x.Heap
		o["et"] = s.tkey(x.Type().Underlying().(*types.Pointer).Elem())
		o["comment"] = x.Comment
	case *ssa.BinOp:
		o["op"] = "BinOp"
		o["o"] = x.Op.String()
		o["x"] = op(x.X)
		o["y"] = op(x.Y)
		o["xt"] = s.tkey(x.X.Type())
		o["yt"] = s.tkey(x.Y.Type())
	case *ssa.UnOp:
		o["op"] = "UnOp"
		o["o"] = x.Op.String()
		o["x"] = op(x.X)
		o["xt"] = s.tkey(x.X.Type())
		o["commaok"] = x.CommaOk
	case *ssa.Call:
		o["op"] = "Call"
		o["call"] = s.callCommon(fn, regs, &x.Call)
	case *ssa.Go:
		o["op"] = "Go"
		o["call"] = s.callCommon(fn, regs, &x.Call)
	case *ssa.Defer:
		o["op"] = "Defer"
		o["call"] = s.callCommon(fn, regs, &x.Call)
	case *ssa.ChangeInterface:
		o["op"] = "ChangeInterface"
		o["x"] = op(x.X)
	case *ssa.ChangeType:
		o["op"] = "ChangeType"
		o["x"] = op(x.X)
		o["xt"] = s.tkey(x.X.Type())
	case *ssa.Convert:
		o["op"] = "Convert"
		o["x"] = op(x.X)
		o["xt"] = s.tkey(x.X.Type())
	case *ssa.MakeInterface:
		o["op"] = "MakeInterface"
		o["x"] = op(x.X)
		o["xt"] = s.tkey(x.X.Type())
	case *ssa.Extract:
		o["op"] = "Extract"
		o["x"] = op(x.Tuple)
		o["index"] = x.Index
	case *ssa.Field:
		o["op"] = "Field"
		o["x"] = op(x.X)
		o["field"] = x.Field
	case *ssa.FieldAddr:
		o["op"] = "FieldAddr"
		o["x"] = op(x.X)
		o["field"] = x.Field
	case *ssa.Index:
		o["op"] = "Index"
		o["x"] = op(x.X)
		o["index"] = op(x.Index)
		o["xt"] = s.tkey(x.X.Type())
	case *ssa.IndexAddr:
		o["op"] = "IndexAddr"
		o["x"] = op(x.X)
		o["index"] = op(x.Index)
		o["xt"] = s.tkey(x.X.Type())
	case *ssa.Lookup:
		o["op"] = "Lookup"
		o["x"] = op(x.X)
		o["index"] = op(x.Index)
		o["commaok"] = x.CommaOk
		o["xt"] = s.tkey(x.X.Type())
	case *ssa.MakeChan:
		o["op"] = "MakeChan"
		o["size"] = op(x.Size)
	case *ssa.MakeClosure:
		o["op"] = "MakeClosure"
		o["fn"] = s.fname(x.Fn.(*ssa.Function))
		b := []any{}
		for _, v := range x.Bindings {
			b = append(b, op(v))
		}
		o["bindings"] = b
	case *ssa.MakeMap:
		o["op"] = "MakeMap"
	case *ssa.MakeSlice:
		o["op"] = "MakeSlice"
		o["len"] = op(x.Len)
		o["cap"] = op(x.Cap)
	case *ssa.MapUpdate:
		o["op"] = "MapUpdate"
		o["map"] = op(x.Map)
		o["key"] = op(x.Key)
		o["value"] = op(x.Value)
	case *ssa.Next:
		o["op"] = "Next"
		o["iter"] = op(x.Iter)
		o["isstring"] = x.IsString
	case *ssa.Range:
		o["op"] = "Range"
		o["x"] = op(x.X)
		o["xt"] = s.tkey(x.X.Type())
	case *ssa.Phi:
		o["op"] = "Phi"
		e := []any{}
		for _, v := range x.Edges {
			e = append(e, op(v))
		}
		o["edges"] = e
	case *ssa.Select:
		o["op"] = "Select"
		o["blocking"] = x.Blocking
		st := []any{}
		for _, c := range x.States {
			js := J{"dir": int(c.Dir), "chan": op(c.Chan)}
			if c.Send != nil {
				js["send"] = op(c.Send)
			}
			js["et"] = s.tkey(c.Chan.Type().Underlying().(*types.Chan).Elem())
			st = append(st, js)
		}
		o["states"] = st
	case *ssa.Send:
		o["op"] = "Send"
		o["chan"] = op(x.Chan)
		o["x"] = op(x.X)
	case *ssa.Slice:
		o["op"] = "Slice"
		o["x"] = op(x.X)
		o["low"] = op(x.Low)
		o["high"] = op(x.High)
		o["max"] = op(x.Max)
		o["xt"] = s.tkey(x.X.Type())
	case *ssa.SliceToArrayPointer:
		o["op"] = "SliceToArrayPointer"
		o["x"] = op(x.X)
	case *ssa.Store:
		o["op"] = "Store"
		o["addr"] = op(x.Addr)
		o["val"] = op(x.Val)
	case *ssa.TypeAssert:
		o["op"] = "TypeAssert"
		o["x"] = op(x.X)
		o["at"] = s.tkey(x.AssertedType)
		o["commaok"] = x.CommaOk
	case *ssa.If:
		o["op"] = "If"
		o["cond"] = op(x.Cond)
	case *ssa.Jump:
		o["op"] = "Jump"
	case *ssa.Return:
		o["op"] = "Return"
		r := []any{}
		for _, v := range x.Results {
			r = append(r, op(v))
		}
		o["results"] = r
	case *ssa.Panic:
		o["op"] = "Panic"
		o["x"] = op(x.X)
	case *ssa.RunDefers:
		o["op"] = "RunDefers"
	default:
		o["op"] = "Unsupported"
		o["what"] = fmt.Sprintf("%T", ins)
	}
	return o
}

func (s *server) typeDesc(key string) J {
	t, ok := s.types[key]
	if !ok {
		return J{"error": "unknown type " + key}
	}
	o := J{"key": key}
	if n, ok := t.(*types.Named); ok {
		o["named"] = n.Obj().Name()
		if n.Obj().Pkg() != nil {
			o["pkg"] = n.Obj().Pkg().Path()
		}
	}
	if a, ok := t.(*types.Alias); ok {
		o["alias"] = s.tkey(types.Unalias(a))
	}
	switch u := t.Underlying().(type) {
	case *types.Basic:
		o["kind"] = "basic"
		o["basic"] = u.Name()
		info := u.Info()
		switch {
		case info&types.IsBoolean != 0:
			o["cls"] = "bool"
		case info&types.IsInteger != 0:
			o["cls"] = "int"
			o["signed"] = info&types.IsUnsigned == 0
			bits := 64
			switch u.Kind() {
			case types.Int8, types.Uint8:
				bits = 8
			case types.Int16, types.Uint16:
				bits = 16
			case types.Int32, types.Uint32:
				bits = 32
			}
			o["bits"] = bits
		case info&types.IsFloat != 0:
			o["cls"] = "float"
		case info&types.IsString != 0:
			o["cls"] = "string"
		case u.Kind() == types.UnsafePointer:
			o["cls"] = "unsafeptr"
		case u.Kind() == types.UntypedNil:
			o["cls"] = "nil"
		default:
			o["cls"] = "other"
		}
	case *types.Pointer:
		o["kind"] = "pointer"
		o["elem"] = s.tkey(u.Elem())
	case *types.Slice:
		o["kind"] = "slice"
		o["elem"] = s.tkey(u.Elem())
	case *types.Array:
		o["kind"] = "array"
		o["elem"] = s.tkey(u.Elem())
		o["len"] = u.Len()
	case *types.Map:
		o["kind"] = "map"
		o["keyt"] = s.tkey(u.Key())
		o["elem"] = s.tkey(u.Elem())
	case *types.Chan:
		o["kind"] = "chan"
		o["elem"] = s.tkey(u.Elem())
	case *types.Struct:
		o["kind"] = "struct"
		fs := []any{}
		for i := 0; i < u.NumFields(); i++ {
			f := u.Field(i)
			fs = append(fs, J{"n": f.Name(), "t": s.tkey(f.Type()), "emb": f.Embedded()})
		}
		o["fields"] = fs
	case *types.Interface:
		o["kind"] = "interface"
		ms := []string{}
		for i := 0; i < u.NumMethods(); i++ {
			ms = append(ms, u.Method(i).Name())
		}
		o["methods"] = ms
	case *types.Signature:
		o["kind"] = "func"
	case *types.Tuple:
		o["kind"] = "tuple"
		es := []string{}
		for i := 0; i < u.Len(); i++ {
			es = append(es, s.tkey(u.At(i).Type()))
		}
		o["elems"] = es
	default:
		o["kind"] = fmt.Sprintf("%T", u)
	}
	return o
}

func (s *server) lookupFunc(name string) *ssa.Function {
	if f, ok := s.funcs[name]; ok {
		return f
	}
	// "pkgpath.Name" for package-level functions
	if i := strings.LastIndex(name, "."); i > 0 && !strings.HasPrefix(name, "(") {
		if p, ok := s.pkgs[name[:i]]; ok {
			if f := p.Func(name[i+1:]); f != nil {
				s.fname(f)
				return f
			}
		}
	}
	// "(*pkgpath.T).M" or "(pkgpath.T).M"
	if strings.HasPrefix(name, "(") {
		j := strings.LastIndex(name, ").")
		if j > 0 {
			recv := name[1:j]
			m := name[j+2:]
			ptr := strings.HasPrefix(recv, "*")
			recv = strings.TrimPrefix(recv, "*")
			if i := strings.LastIndex(recv, "."); i > 0 {
				if p, ok := s.pkgs[recv[:i]]; ok {
					if tn := p.Type(recv[i+1:]); tn != nil {
						var t types.Type = tn.Type()
						if ptr {
							t = types.NewPointer(t)
						}
						sel := s.prog.MethodSets.MethodSet(t).Lookup(p.Pkg, m)
						if sel != nil {
							f := s.prog.MethodValue(sel)
							if f != nil {
								s.fname(f)
								return f
							}
						}
					}
				}
			}
		}
	}
	return nil
}

func (s *server) handle(req J) J {
	switch req["cmd"] {
	case "func":
		name := req["name"].(string)
		f := s.lookupFunc(name)
		if f == nil {
			return J{"error": "no function " + name}
		}
		return s.exportFunc(f)
	case "type":
		return s.typeDesc(req["key"].(string))
	case "method":
		tk := req["type"].(string)
		t, ok := s.types[tk]
		if !ok {
			return J{"error": "unknown type " + tk}
		}
		name := req["name"].(string)
		ms := s.prog.MethodSets.MethodSet(t)
		for i := 0; i < ms.Len(); i++ {
			sel := ms.At(i)
			if sel.Obj().Name() == name {
				mp, _ := req["mpkg"].(string)
				if !sel.Obj().Exported() && sel.Obj().Pkg() != nil && mp != "" && sel.Obj().Pkg().Path() != mp {
					continue
				}
				f := s.prog.MethodValue(sel)
				if f == nil {
					return J{"error": "abstract method"}
				}
				return J{"fn": s.fname(f)}
			}
		}
		return J{"error": "no method " + name + " on " + tk}
	case "implements":
		t, ok1 := s.types[req["type"].(string)]
		it, ok2 := s.types[req["iface"].(string)]
		if !ok1 || !ok2 {
			return J{"error": "unknown type"}
		}
		iface, ok := it.Underlying().(*types.Interface)
		if !ok {
			return J{"error": "not an interface"}
		}
		return J{"v": types.Implements(t, iface)}
	case "identical":
		t, ok1 := s.types[req["a"].(string)]
		u, ok2 := s.types[req["b"].(string)]
		if !ok1 || !ok2 {
			return J{"error": "unknown type"}
		}
		return J{"v": types.Identical(t, u)}
	case "globals":
		p, ok := s.pkgs[req["pkg"].(string)]
		if !ok {
			return J{"error": "no package"}
		}
		gs := []any{}
		for _, m := range p.Members {
			if g, ok := m.(*ssa.Global); ok {
				gs = append(gs, J{"n": p.Pkg.Path() + "." + g.Name(), "t": s.tkey(g.Type())})
			}
		}
		return J{"globals": gs}
	case "typeof":
		// resolve "pkgpath.Name" or "*pkgpath.Name" into a type key
		name := req["name"].(string)
		ptr := strings.HasPrefix(name, "*")
		n := strings.TrimPrefix(name, "*")
		i := strings.LastIndex(n, ".")
		if i < 0 {
			return J{"error": "bad name"}
		}
		p, ok := s.pkgs[n[:i]]
		if !ok {
			return J{"error": "no package " + n[:i]}
		}
		tn := p.Type(n[i+1:])
		if tn == nil {
			return J{"error": "no type " + name}
		}
		var t types.Type = tn.Type()
		if ptr {
			t = types.NewPointer(t)
		}
		return J{"key": s.tkey(t)}
	case "pkgs":
		ps := []string{}
		for k := range s.pkgs {
			ps = append(ps, k)
		}
		return J{"pkgs": ps}
	}
	return J{"error": "bad cmd"}
}

func main() {
	dir := flag.String("dir", ".", "directory of the module to load from")
	listen := flag.String("listen", "", "unix socket path to serve on (default: stdin/stdout)")
	flag.Parse()
	patterns := flag.Args()
	fset := token.NewFileSet()
	cfg := &packages.Config{
		Mode:  packages.LoadAllSyntax,
		Dir:   *dir,
		Fset:  fset,
		Tests: false,
		Env:   append(os.Environ(), "GOFLAGS=-mod=mod", "GOWORK=off", "GOPROXY=off", "GOSUMDB=off", "GOTOOLCHAIN=local"),
	}
	initial, err := packages.Load(cfg, patterns...)
	if err != nil {
		fmt.Fprintln(os.Stderr, "load:", err)
		os.Exit(2)
	}
	nerr := 0
	packages.Visit(initial, nil, func(p *packages.Package) {
		for _, e := range p.Errors {
			fmt.Fprintln(os.Stderr, "pkg error:", p.PkgPath, e)
			nerr++
		}
	})
	if nerr > 0 {
		os.Exit(3)
	}
	prog, _ := ssautil.AllPackages(initial, ssa.InstantiateGenerics)
	s := &server{prog: prog, pkgs: map[string]*ssa.Package{}, funcs: map[string]*ssa.Function{},
		types: map[string]types.Type{}, fset: fset, built: map[*ssa.Package]bool{}}
	for _, p := range prog.AllPackages() {
		s.pkgs[p.Pkg.Path()] = p
	}
	if *listen != "" {
		os.Remove(*listen)
		ln, err := net.Listen("unix", *listen)
		if err != nil {
			fmt.Fprintln(os.Stderr, "listen:", err)
			os.Exit(4)
		}
		fmt.Println(`{"ready":true}`)
		go func() { // exit when stdin closes (parent gone)
			b := make([]byte, 1)
			for {
				if _, err := os.Stdin.Read(b); err != nil {
					os.Remove(*listen)
					os.Exit(0)
				}
			}
		}()
		for {
			c, err := ln.Accept()
			if err != nil {
				continue
			}
			go s.serve(c, c)
		}
	}
	fmt.Println(`{"ready":true}`)
	s.serve(os.Stdin, os.Stdout)
}

var mu sync.Mutex

func (s *server) serve(in io.Reader, out io.Writer) {
	w := bufio.NewWriterSize(out, 1<<20)
	enc := json.NewEncoder(w)
	enc.SetEscapeHTML(false)
	sc := bufio.NewScanner(in)
	sc.Buffer(make([]byte, 1<<20), 1<<26)
	for sc.Scan() {
		var req J
		if err := json.Unmarshal(sc.Bytes(), &req); err != nil {
			enc.Encode(J{"error": err.Error()})
			w.Flush()
			continue
		}
		func() {
			defer func() {
				if r := recover(); r != nil {
					enc.Encode(J{"error": fmt.Sprint("panic: ", r)})
				}
			}()
			mu.Lock()
			defer mu.Unlock()
			enc.Encode(s.handle(req))
		}()
		w.Flush()
	}
}
