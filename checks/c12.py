from common import STD
PROPERTY = "C12"
EXPLANATION = ("Real sub-process node (newSubProcess constructor with an inner start -> end program, subProcess.NextAction / run / startAll / "
               "ceaseFlowMonitor, inner start and end events, inner flow), the real activity harness around it and the parent's flow loop, in an "
               "instance built by NewProcess; a recording sink follows the sub-process; the scheduler is symbolic. "
               "Comparison with the inlined program over all C01 programs, nesting depth > 1 and re-entry are not covered.")
ASSUMPTIONS = ["tracers replaced by the synchronous stub whose Subscribe is a scheduling point (contract established by C09)",
               "inner program fixed: start event -> end event; one parent token; depth 1"]
SCENARIOS = [
    dict(name="C12 inner activity kinds", entry="VerifC12_InnerActivityKinds", K=60, reach=["built"], overrides=STD, max_instr=4000000,
         expect_obligations=["an activity inside a sub-process is the same kind of node (requested with the same activity type) as inline"],
         bounds="9 activity kinds (solver's choice), one activity inline and one inside a sub-process; construction by NewProcess / newSubProcess"),
    dict(name="C12 sub-process (start -> end inside), one parent token", entry="VerifC12_Basic", K=160, reach=["quiescent"], overrides=STD, tiers=("thorough",),
         expect_obligations=["the parent's token continues past the sub-process once every inner token is consumed"],
         bounds="one sub-process containing start -> end, one parent token, all interleavings", time_budget_s=1500),
]
