"""Bounded model checking driver: the scheduler's choice at every step is an SMT variable.

step k:  pick_k (which thread moves), opt_k (which select case) are fresh variables; every enabled
alternative of every thread is executed symbolically under `guard & enabled & pick_k==tid`, heap
writes are merged back guarded, alternatives at equal locations are merged.  After the last step
the collected obligations (assertions, panics, stuck states) are decided by z3."""
import time
import z3
from vals import *
import interp as I
from interp import Machine, Alt, Thread, Frame, Unsupported, BoundExceeded, HANDOFF, _n


def _regs_used(x, acc):
    if isinstance(x, dict):
        if x.get("k") == "r" and "n" in x and len(x) == 2:
            acc.add(x["n"])
            return
        for k, v in x.items():
            if k in ("r", "pos", "t", "xt", "yt", "op", "o", "et", "at", "sig", "argt", "comment"):
                continue
            _regs_used(v, acc)
    elif isinstance(x, list):
        for v in x:
            _regs_used(v, acc)


class Liveness:
    def __init__(self):
        self.cache = {}

    def fn_info(self, fn):
        info = self.cache.get(fn.name)
        if info is not None:
            return info
        blocks = fn.blocks
        use = []
        defs = []
        for b in blocks:
            u, d = set(), set()
            for ins in b["instrs"]:
                acc = set()
                _regs_used(ins, acc)
                u |= (acc - d)
                if "r" in ins:
                    d.add(ins["r"])
            use.append(u)
            defs.append(d)
        live_in = [set() for _ in blocks]
        live_out = [set() for _ in blocks]
        changed = True
        while changed:
            changed = False
            for i in reversed(range(len(blocks))):
                out = set()
                for s in blocks[i]["succs"]:
                    out |= live_in[s]
                if fn.recover is not None:
                    out |= live_in[fn.recover]
                inn = use[i] | (out - defs[i])
                if out != live_out[i] or inn != live_in[i]:
                    live_out[i], live_in[i] = out, inn
                    changed = True
        info = (live_out, {})
        self.cache[fn.name] = info
        return info

    def live_at(self, fn, blk, idx):
        live_out, memo = self.fn_info(fn)
        k = (blk, idx)
        r = memo.get(k)
        if r is None:
            live = set(live_out[blk])
            instrs = fn.blocks[blk]["instrs"]
            for j in range(len(instrs) - 1, idx - 1, -1):
                ins = instrs[j]
                if "r" in ins:
                    live.discard(ins["r"])
                acc = set()
                _regs_used(ins, acc)
                live |= acc
            # free variables / params used later are covered by `use`
            r = live
            memo[k] = r
        return r


class Run:
    def __init__(self, prog, entry, K=60, overrides=None, map_perm=False, max_instr=400000, name=None,
                 reduce=True, verbose=False):
        self.prog = prog
        self.entry = entry
        self.K = K
        self.m = Machine(prog, max_instr=max_instr)
        self.m.map_perm = map_perm
        if overrides:
            self.m.overrides.update(overrides)
        self.live = Liveness()
        self.sched = []       # per step: list of (tid, descr, cond, opt)
        self.picks = []
        self.opts = []
        self.any_enabled_final = None
        self.quiescent_at = None
        self.verbose = verbose
        self.name = name or entry
        self.reduce = reduce
        self.t0 = time.time()
        self.foot = []        # per step: {tid: set(objs)} for the partial-order constraint

    # ------------------------------------------------------------------ setup
    def start(self):
        m = self.m
        th = Thread(0, "main")
        th.fname = self.entry
        m.threads.append(th)
        alt = Alt(th, True)
        m.push_call(alt, self.entry, [])
        res = m.run_alt(alt)
        self.finish_step(res)

    # ------------------------------------------------------------------ parked-op inspection
    def cur_ins(self, alt):
        fr = alt.frames[-1]
        return fr, fr.fn.blocks[fr.blk]["instrs"][fr.idx]

    def recv_chans(self, alt):
        """[(guard, chan)] on which a parked alternative is ready to receive"""
        if alt.info is not None:
            return []
        fr, ins = self.cur_ins(alt)
        m = self.m
        out = []
        if ins["op"] == "UnOp" and ins["o"] == "<-":
            out = [(g, c) for g, c in alts_of(m.ev(alt, fr, ins["x"])) if c is not None]
        elif ins["op"] == "Select":
            for s in ins["states"]:
                if s["dir"] == 2:
                    out += [(g, c) for g, c in alts_of(m.ev(alt, fr, s["chan"])) if c is not None]
        return out

    def options(self, alt, waiters):
        """[(cond, opt, objs)] : ways the parked alternative can move now (cond excludes alt.guard)"""
        m = self.m
        hf = I.handoff_free(m, alt)
        if alt.info is not None:
            name, args = alt.info
            base = name.rsplit(".", 1)[-1] if type(name) is str else ""
            if base == "verifQuiesce":
                return "quiesce"
            en = m.enabled.get(name)
            if en is None and type(name) is str and base.startswith("verif"):
                en = m.enabled.get("$" + base)
            cond = en(m, alt, args) if en else True
            objs = set()
            for a in args:
                for g, p in alts_of(a):
                    if type(p) is Ptr or type(p) is Chan:
                        objs.add(p.obj)
            if type(name) is str and (base in ("verifMerge", "verifYield")):
                objs = set()
            return [(AND(hf, cond), None, objs)]
        fr, ins = self.cur_ins(alt)
        op = ins["op"]
        if op == "Send":
            chs = alts_of(m.ev(alt, fr, ins["chan"]))
            cond = OR(*[AND(g, I.send_ready(m, alt, c, waiters)) for g, c in chs])
            return [(cond, None, {c.obj for g, c in chs if c is not None} | {HANDOFF})]
        if op == "UnOp":
            chs = alts_of(m.ev(alt, fr, ins["x"]))
            cond = OR(*[AND(g, I.recv_ready(m, alt, c)) for g, c in chs])
            return [(cond, None, {c.obj for g, c in chs if c is not None} | {HANDOFF})]
        if op == "Select":
            outs = []
            for i, s in enumerate(ins["states"]):
                chs = alts_of(m.ev(alt, fr, s["chan"]))
                if s["dir"] == 1:
                    cond = OR(*[AND(g, I.send_ready(m, alt, c, waiters)) for g, c in chs])
                else:
                    cond = OR(*[AND(g, I.recv_ready(m, alt, c)) for g, c in chs])
                outs.append((cond, i, {c.obj for g, c in chs if c is not None} | {HANDOFF}))
            if not ins["blocking"]:
                none = AND(hf, *[NOT(c) for c, i, o in outs])
                allobjs = set()
                for c, i, o in outs:
                    allobjs |= o
                outs.append((none, -1, allobjs))
            return outs
        raise Unsupported("parked at " + op)

    def describe(self, alt, opt):
        fr, ins = self.cur_ins(alt)
        what = ins["op"]
        if alt.info is not None:
            what = alt.info[0] if type(alt.info[0]) is str else repr(alt.info[0])
            what = what.rsplit("/", 1)[-1]
        elif ins["op"] == "UnOp":
            what = "recv"
        elif ins["op"] == "Select":
            what = "select[%s]" % opt
        pos = ins.get("pos") or ""
        if not pos:
            # nearest position in the frame stack
            for f in reversed(alt.frames):
                for j in range(f.idx, -1, -1):
                    p = f.fn.blocks[f.blk]["instrs"][j].get("pos")
                    if p:
                        pos = p
                        break
                if pos:
                    break
        return "%s %s @%s" % (fr.fn.name.rsplit("/", 1)[-1], what, pos)

    # ------------------------------------------------------------------ one scheduling step
    def step(self, k):
        m = self.m
        m.step = k
        parked = [(t, a) for t in m.threads for a in t.alts]
        # who waits to receive on which channel (for unbuffered rendezvous)
        rwait = []
        for t, a in parked:
            for g, c in self.recv_chans(a):
                rwait.append((t.tid, AND(a.guard, g), c))

        def mk_waiters(tid):
            def waiters(ch):
                return OR(*[g for (tt, g, c) in rwait if tt != tid and c == ch])
            return waiters

        cands = []   # (thread, alt, cond, opt, objs)
        quiesce = []
        for t, a in parked:
            opts = self.options(a, mk_waiters(t.tid))
            if opts == "quiesce":
                quiesce.append((t, a))
                continue
            for cond, opt, objs in opts:
                c = AND(a.guard, cond)
                if c is False:
                    continue
                cands.append((t, a, cond, opt, objs))
        any_other = OR(*[AND(a.guard, cond) for (t, a, cond, opt, objs) in cands])
        for t, a in quiesce:
            cands.append((t, a, NOT(any_other), None, {"*"}))
        # feasibility pruning
        live = []
        for (t, a, cond, opt, objs) in cands:
            if m.feasible(a.guard, cond):
                live.append((t, a, cond, opt, objs))
        if not live:
            return False
        pick = z3.Int("pick!%d" % k)
        optv = z3.Int("opt!%d" % k)
        self.picks.append(pick)
        self.opts.append(optv)
        any_en = OR(*[AND(a.guard, cond) for (t, a, cond, opt, objs) in live])
        tids = sorted({t.tid for (t, a, cond, opt, objs) in live})
        # something moves iff something is enabled
        m.add_constraint(z3.If(B(any_en), z3.Or(*[pick == tid for tid in tids]), pick == -1))
        for tid in tids:
            m.add_constraint(z3.Implies(pick == tid, B(OR(*[AND(a.guard, cond) for (t, a, cond, opt, objs) in live if t.tid == tid]))))
        by_alt = {}
        for c in live:
            by_alt.setdefault(id(c[1]), []).append(c)
        sched = []
        results = []
        foot = {}
        for aid, lst in by_alt.items():
            t, a = lst[0][0], lst[0][1]
            fire = (pick == t.tid)
            multi = len(lst) > 1 or lst[0][3] is not None
            # if this alternative is the real one and its thread is picked, one enabled option is taken
            if multi:
                m.add_constraint(z3.Implies(z3.And(fire, B(a.guard)),
                                            z3.Or(*[z3.And(B(cond), optv == (opt if opt is not None else 0)) for (_, _, cond, opt, _) in lst])))
            else:
                m.add_constraint(z3.Implies(z3.And(fire, B(a.guard)), B(lst[0][2])))
            for (_, _, cond, opt, objs) in lst:
                child = a.copy()
                g = AND(a.guard, cond, fire)
                if multi:
                    g = AND(g, optv == (opt if opt is not None else 0))
                child.guard = g
                child.resume = True
                child.opt = opt
                child.ninstr = 0
                child.ov = {}
                sched.append((t.tid, self.describe(a, opt), g, opt))
                foot.setdefault(t.tid, set()).update(objs)
                m.stats["macro_steps"] += 1
                res = m.run_alt(child)
                for r in res:
                    foot[t.tid].update(o for o in r.ov.keys())
                    if r.status == "parked":
                        # where the thread waits next matters to senders on unbuffered channels
                        for g_, c_ in self.recv_chans(r):
                            foot[t.tid].add(c_.obj)
                        if r.info is not None and type(r.info[0]) is str and r.info[0].endswith("verifQuiesce"):
                            foot[t.tid].add("*")
                results += res
            a.guard = AND(a.guard, NOT(fire))
        self.sched.append(sched)
        # partial-order reduction: adjacent independent steps appear in increasing thread order
        if self.reduce and self.foot:
            prev = self.foot[-1]
            ppick = self.picks[-2]
            for t1, o1 in prev.items():
                for t2, o2 in foot.items():
                    if t2 < t1 and not (o1 & o2) and "*" not in o1 and "*" not in o2 and not self.spawned_by(t1, t2):
                        m.add_constraint(z3.Not(z3.And(ppick == t1, pick == t2)))
        self.foot.append(foot)
        self.finish_step(results)
        return True

    def spawned_by(self, t1, t2):
        # thread t2 may have been created by t1's previous step -> dependent
        return t2 in self.new_threads_last.get(t1, ()) if hasattr(self, "new_threads_last") else False

    def finish_step(self, results):
        m = self.m
        # 1. heap writes
        self.apply(results)
        # 2. goroutines started in this step run their first (local) segment
        spawned_map = {}
        rounds = 0
        while m.pending_spawns:
            rounds += 1
            ps, m.pending_spawns = m.pending_spawns, []
            newres = []
            for (th, parent_alt, name, args, fv) in ps:
                spawned_map.setdefault(parent_alt.thread.tid, set()).add(th.tid)
                alt = Alt(th, parent_alt.guard)
                for a in th.alts:
                    for sk, sv in a.nalloc.items():
                        if alt.nalloc.get(sk, 0) < sv:
                            alt.nalloc[sk] = sv
                self.start_thread(alt, name, args, fv)
                res = m.run_alt(alt)
                newres += res
            self.apply(newres)
            results = results + newres
        self.new_threads_last = spawned_map
        # 3. bookkeeping + merge
        for r in results:
            t = r.thread
            if r.status == "parked":
                t.alts.append(r)
            elif r.status in ("done", "panicked"):
                t.done = OR(t.done, r.guard)
        for t in m.threads:
            t.alts = [a for a in t.alts if a.guard is not False]
            if len(t.alts) > 1:
                t.alts = self.merge_alts(t.alts)
        m.stats["alts"] = max(m.stats["alts"], sum(len(t.alts) for t in m.threads))

    def start_thread(self, alt, name, args, fv):
        """first frame of a goroutine; intrinsic targets get a tiny wrapper frame"""
        m = self.m
        ov = m.overrides.get(name) if type(name) is str else None
        if ov is not None:
            name = ov
        if name in m.intrinsics or type(name) is not str:
            raise Unsupported("go statement on modelled function %r" % (name,))
        m.push_call(alt, name, args, fv)

    def apply(self, results):
        m = self.m
        heap = m.heap
        for r in results:
            g = r.guard
            for obj, v in r.ov.items():
                old = heap.get(obj, I._MISSING)
                if old is I._MISSING:
                    heap[obj] = v
                else:
                    heap[obj] = merge(g, v, old)
            r.ov = {}

    def prune(self, alt):
        for fr in alt.frames:
            live = self.live.live_at(fr.fn, fr.blk, fr.idx)
            for k in list(fr.regs.keys()):
                if k not in live and not k.startswith("$"):
                    del fr.regs[k]

    def merge_alts(self, alts):
        m = self.m
        groups = {}
        order = []
        for a in alts:
            self.prune(a)
            key = (a.loc(), a.info[0] if a.info else None, len(a.info[1]) if a.info else 0, a.opt)
            if key not in groups:
                groups[key] = []
                order.append(key)
            groups[key].append(a)
        out = []
        for key in order:
            g = groups[key]
            if len(g) == 1:
                out.append(g[0])
                continue
            m.stats["merges"] += len(g) - 1
            base = g[-1]
            for a in reversed(g[:-1]):
                for fb, fa in zip(base.frames, a.frames):
                    for rk in set(fb.regs) | set(fa.regs):
                        va = fa.regs.get(rk, I._MISSING)
                        vb = fb.regs.get(rk, I._MISSING)
                        if va is I._MISSING:
                            continue
                        if vb is I._MISSING:
                            fb.regs[rk] = va
                        else:
                            fb.regs[rk] = merge(a.guard, va, vb)
                    # pending deferred calls: same shape (guaranteed by loc), merge their arguments
                    nd = []
                    for da, db in zip(fa.defers, fb.defers):
                        nd.append(self.merge_defer(a.guard, da, db))
                    fb.defers = nd
                if base.info:
                    base.info = (base.info[0], [merge(a.guard, x, y) for x, y in zip(a.info[1], base.info[1])])
                base.guard = OR(a.guard, base.guard)
                for sk, sv in a.nalloc.items():
                    if base.nalloc.get(sk, 0) < sv:
                        base.nalloc[sk] = sv
                base.nspawn = max(base.nspawn, a.nspawn)
            out.append(base)
        return out

    def merge_defer(self, g, da, db):
        if da[0] != db[0] or da[1] != db[1]:
            raise Unsupported("merging different deferred calls")
        if da[0] == "builtin":
            return ("builtin", da[1], [merge(g, x, y) for x, y in zip(da[2], db[2])], da[3])
        return ("fn", da[1], [merge(g, x, y) for x, y in zip(da[2], db[2])], tuple(merge(g, x, y) for x, y in zip(da[3], db[3])))

    # ------------------------------------------------------------------ whole run
    def execute(self):
        m = self.m
        self.start()
        k = 0
        while k < self.K:
            if self.verbose:
                print("  step %d: threads=%d alts=%d constraints=%d t=%.1fs" % (
                    k, len(m.threads), sum(len(t.alts) for t in m.threads), len(m.constraints), time.time() - self.t0), flush=True)
            if not self.step(k):
                self.quiescent_at = k
                break
            k += 1
        self.steps_done = k
        # anything still enabled after the last step?  (completeness threshold)
        if self.quiescent_at is None:
            self.any_enabled_final = self.enabled_now()
        else:
            self.any_enabled_final = False
        return self

    def enabled_now(self):
        m = self.m
        parked = [(t, a) for t in m.threads for a in t.alts]
        rwait = []
        for t, a in parked:
            for g, c in self.recv_chans(a):
                rwait.append((t.tid, AND(a.guard, g), c))
        conds = []
        for t, a in parked:
            def waiters(ch, tid=t.tid):
                return OR(*[g for (tt, g, c) in rwait if tt != tid and c == ch])
            opts = self.options(a, waiters)
            if opts == "quiesce":
                continue
            for cond, opt, objs in opts:
                conds.append(AND(a.guard, cond))
        return OR(*conds)

    # ------------------------------------------------------------------ queries
    def solve(self, *extra, timeout_ms=120000):
        s = self.m.solver
        s.set("timeout", timeout_ms)
        t0 = time.time()
        r = s.check(*[B(e) for e in extra])
        dt = time.time() - t0
        self.m.stats["solver_checks"] += 1
        self.m.stats["solver_s"] += dt
        return r, (s.model() if r == z3.sat else None), dt

    def schedule_of(self, model):
        out = []
        for k, sched in enumerate(self.sched):
            pv = model.eval(self.picks[k], model_completion=True)
            hit = None
            for tid, descr, g, opt in sched:
                if z3.is_true(model.eval(B(g), model_completion=True)):
                    hit = (tid, descr)
                    break
            if hit is None:
                out.append({"step": k, "idle": True})
            else:
                out.append({"step": k, "thread": self.m.threads[hit[0]].name, "tid": hit[0], "op": hit[1]})
        return out

    def log_of(self, model):
        out = []
        for (step, seq, g, tid, tag, args) in self.m.log:
            if z3.is_true(model.eval(B(g), model_completion=True)):
                out.append({"step": step, "thread": self.m.threads[tid].name, "tag": tag, "args": [self.show(a, model) for a in args]})
        return out

    def show(self, v, model):
        if type(v) is Union:
            for g, x in v.alts:
                if z3.is_true(model.eval(B(g), model_completion=True)):
                    return self.show(x, model)
            return "?"
        if type(v) is Iface:
            return self.show(v.v, model)
        if is_z3(v):
            r = model.eval(v, model_completion=True)
            if z3.is_bv(r):
                x = r.as_long()
                if x >= 1 << (r.size() - 1):
                    x -= 1 << r.size()
                return x
            if z3.is_true(r):
                return True
            if z3.is_false(r):
                return False
            return str(r)
        if type(v) is tuple:
            return [self.show(x, model) for x in v]
        if isinstance(v, (int, str, bool, float)) or v is None:
            return v
        return repr(v)

    def nondets_of(self, model):
        out = {}
        for name, v in self.m.nondets.items():
            r = model.eval(v, model_completion=True)
            if z3.is_bv(r):
                x = r.as_long()
                if x >= 1 << (r.size() - 1):
                    x -= 1 << r.size()
                out[name] = x
            else:
                out[name] = bool(z3.is_true(r))
        return out
