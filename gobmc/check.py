"""./check <PROPERTY> [--tier quick|thorough] [--replay path] [--only substr] [-v]

Runs every scenario of the property's check module (checks/cNN.py) against a scratch copy of
/repo's current working tree, decides the collected obligations with z3, replays counterexamples
natively, compares with known_findings.json, writes evidence/<id>.json.
exit 0: everything explored held (or is a listed known finding); exit 1 + VIOLATION line otherwise."""
import argparse, hashlib, importlib, json, multiprocessing, os, re, subprocess, sys, time, traceback

HERE = os.path.dirname(os.path.abspath(__file__))
VERIF = os.path.dirname(HERE)
sys.path.insert(0, HERE)
sys.path.insert(0, os.path.join(VERIF, "checks"))

import z3
from session import Session
import ir

_SESSION = None
TIME_BUDGET = [240]


def run_scenario(args):
    """worker: one scenario -> picklable result"""
    sc, sockpath, pkgpath, seed, verbose = args[:5]
    known = args[5] if len(args) > 5 else []
    from driver import Run
    from interp import Unsupported, BoundExceeded
    t0 = time.time()
    z3.set_param("smt.random_seed", seed % (2 ** 31))
    z3.set_param("sat.random_seed", seed % (2 ** 31))
    prog = ir.Program(sockpath)
    entry = pkgpath + "." + sc["entry"]
    overrides = {"time.After": pkgpath + ".verifTimeAfter"}
    for k, v in sc.get("overrides", {}).items():
        overrides[k] = v if ("." in v or v.startswith("$")) else pkgpath + "." + v
    res = dict(name=sc["name"], entry=sc["entry"], K=sc.get("K", 60), obligations=[], reach={}, status="ok",
               notes=[], functions=[], stats={}, bounds=sc.get("bounds", ""))
    r = None
    try:
        r = Run(prog, entry, K=sc.get("K", 60), overrides=overrides, map_perm=sc.get("map_perm", False),
                max_instr=sc.get("max_instr", 400000), reduce=sc.get("reduce", True), verbose=verbose,
                spawn_limits=sc.get("spawn_limits"), sequential=sc.get("sequential", False), spawn_yield=sc.get("spawn_yield", False), time_budget_s=sc.get("time_budget_s", TIME_BUDGET[0]),
                inits=sc.get("inits", [pkgpath] + ([] if pkgpath.endswith("/schema") else ["github.com/olive-io/bpmn/schema"])))
        r.execute()
        m = r.m
        tmo = sc.get("solver_timeout_ms", 120000)
        # sanity: the constraint system itself must be satisfiable
        base, model0, dt = r.solve(timeout_ms=tmo)
        if base != z3.sat:
            res["status"] = "inconclusive"
            res["notes"].append("scheduler constraints not satisfiable/unknown: %s" % base)
        # reachability witnesses (vacuity guard)
        for label in sc.get("reach", []):
            f = m.reached.get(label, False)
            rr, model, dt = r.solve(f, timeout_ms=tmo) if f is not False else (z3.unsat, None, 0)
            res["reach"][label] = str(rr)
            if rr == z3.sat and "witness" not in res:
                res["witness"] = dict(label=label, nondets=r.nondets_of(model), schedule=r.schedule_of(model)[:r.steps_done])
            if rr != z3.sat:
                res["status"] = "inconclusive"
                res["notes"].append("reachability witness %r is %s (vacuous harness?)" % (label, rr))
        # nobody may still be waiting for quiescence when the run ended (some inputs/schedules would be unexamined)
        pq = r.pending_quiesce()
        if pq is not False:
            rr, model, dt = r.solve(pq, timeout_ms=tmo)
            if rr != z3.unsat:
                res["status"] = "inconclusive"
                res["notes"].append("for some inputs/schedules the harness never got past verifQuiesce within the explored depth (%s)" % rr)
        # completeness threshold
        if r.quiescent_at is None:
            rr, model, dt = r.solve(r.any_enabled_final, timeout_ms=tmo)
            res["complete"] = (rr == z3.unsat)
            if rr != z3.unsat:
                res["status"] = "inconclusive"
                res["notes"].append("something may still move after K=%d steps (%s): depth bound too small" % (r.K, rr))
        else:
            res["complete"] = True
        # obligations: group by (kind, msg, pos)
        groups = {}
        order = []
        for (kind, cond, msg, pos, step) in m.violations:
            key = (kind, msg, pos)
            if key not in groups:
                groups[key] = []
                order.append(key)
            groups[key].append(cond)
        from vals import OR
        for key in order:
            f = OR(*groups[key])
            rr, model, dt = r.solve(f, timeout_ms=tmo)
            ob = dict(kind=key[0], msg=key[1], pos=key[2], verdict=("violated" if rr == z3.sat else "holds" if rr == z3.unsat else "unknown"),
                      solver_s=round(dt, 3), n=len(groups[key]))
            if rr == z3.sat:
                ob["cex"] = dict(nondets=r.nondets_of(model), schedule=[e for e in r.schedule_of(model) if not e.get("idle")],
                                 log=r.log_of(model))
                # listed findings with a signature ("when": values of named inputs): is there a violation outside every signature?
                sigs = [kf["when"] for kf in known if kf.get("scenario") == sc["entry"] and kf.get("obligation") == key[1]
                        and kf.get("kind", key[0]) == key[0] and kf.get("when")]
                if sigs:
                    outside = []
                    for when in sigs:
                        eqs = []
                        for nm, val in when.items():
                            v = m.nondets.get(nm)
                            if v is None:
                                continue
                            eqs.append(v == (z3.BoolVal(bool(val)) if z3.is_bool(v) else z3.BitVecVal(int(val), v.size())))
                        outside.append(z3.Not(z3.And(*eqs)) if eqs else z3.BoolVal(False))
                    rr2, model2, dt2 = r.solve(f, *outside, timeout_ms=tmo)
                    ob["outside_known"] = str(rr2)
                    if rr2 == z3.sat:
                        ob["cex"] = dict(nondets=r.nondets_of(model2), schedule=[e for e in r.schedule_of(model2) if not e.get("idle")],
                                         log=r.log_of(model2))
            if rr == z3.unknown:
                res["status"] = "inconclusive"
                res["notes"].append("solver unknown on obligation %r" % (key,))
            res["obligations"].append(ob)
        # required obligations must have been generated at all (an assertion that is never reached proves nothing)
        msgs = {o["msg"] for o in res["obligations"]} | set(m.asserted)
        res["asserted"] = sorted(m.asserted)
        for need in sc.get("expect_obligations", []):
            if need not in msgs:
                res["status"] = "inconclusive"
                res["notes"].append("expected obligation %r was never generated" % need)
    except (Unsupported, BoundExceeded, ir.ExportError) as e:
        res["status"] = "inconclusive"
        res["notes"].append("%s: %s" % (type(e).__name__, e))
    except Exception as e:
        res["status"] = "error"
        res["notes"].append("engine error: %s\n%s" % (e, traceback.format_exc()[-1500:]))
    if r is not None:
        m = r.m
        res["stats"] = dict(m.stats)
        res["stats"]["steps"] = getattr(r, "steps_done", 0)
        res["stats"]["threads"] = len(m.threads)
        res["stats"]["candidates"] = sum(len(s) for s in r.sched)
        res["stats"]["constraints"] = len(m.constraints)
        res["stats"]["log_entries"] = len(m.log)
        res["cuts"] = sorted(m.cuts)
    res["functions"] = list(prog.requested)
    res["wall_s"] = round(time.time() - t0, 2)
    return res


def native_replay(sess, harness, sc, ob, replay_path, runs=1, timeout=120):
    """run the harness natively on the scratch copy of the real tree with the solver's inputs"""
    info = sess.map[harness]
    d = os.path.join(sess.src, info["dir"])
    test = os.path.join(d, "zz_verif_replay_test.go")
    with open(test, "w") as fh:
        fh.write("""package %s

import "testing"

func TestVerifReplay(t *testing.T) {
	defer func() {
		if r := recover(); r != nil {
			t.Fatalf("VERIF-PANIC %%v", r)
		}
	}()
	%s()
	if f := verifFailures(); len(f) > 0 {
		t.Fatalf("VERIF-FAILED %%q", f)
	}
}
""" % (info["pkg"], sc["entry"]))
    env = dict(os.environ)
    env.update(ir.GOENV)
    env["VERIF_REPLAY"] = replay_path
    cmd = ["go", "test", "-vet=off", "-count=%d" % runs, "-run", "^TestVerifReplay$", "-timeout", "%ds" % timeout, "."]
    try:
        p = subprocess.run(cmd, cwd=d, env=env, stdout=subprocess.PIPE, stderr=subprocess.STDOUT, timeout=timeout + 120)
        out = p.stdout.decode(errors="replace")
    except subprocess.TimeoutExpired as e:
        out = "TIMEOUT " + (e.stdout or b"").decode(errors="replace")
    finally:
        try:
            os.remove(test)
        except OSError:
            pass
    want = ob["msg"]
    if ob["kind"] == "panic":
        hit = ("VERIF-PANIC" in out) or ("panic:" in out)
    else:
        hit = ("VERIF-FAILED" in out and want in out)
    return hit, out[-3000:]


def main():
    ap = argparse.ArgumentParser()
    ap.add_argument("prop")
    ap.add_argument("--tier", default=os.environ.get("VERIF_TIER", "quick"))
    ap.add_argument("--only", default=None)
    ap.add_argument("--replay", default=None)
    ap.add_argument("-v", action="store_true")
    ap.add_argument("-j", type=int, default=int(os.environ.get("VERIF_JOBS", "12")))
    ap.add_argument("--no-native", action="store_true")
    a = ap.parse_args()
    prop = a.prop.upper()
    seed = int(os.environ.get("VERIF_SEED", "0") or 0)
    t0 = time.time()
    TIME_BUDGET[0] = 240 if a.tier == "quick" else 1800
    mod = importlib.import_module(prop.lower())
    scenarios = [s for s in mod.SCENARIOS if a.tier in s.get("tiers", ("quick", "thorough"))]
    if a.only:
        scenarios = [s for s in scenarios if a.only in s["name"] or a.only in s["entry"]]
        if not scenarios:
            print("no scenario of %s (tier %s) matches --only %r" % (prop, a.tier, a.only))
            sys.exit(2)
    if a.replay:
        doc = json.load(open(a.replay))
        scenarios = [s for s in mod.SCENARIOS if s["entry"] == doc["entry"]]
    try:
        # only the harness files of the packages this property's scenarios live in are added to the scratch copy
        sess = Session(harness_dirs=sorted({s.get("harness", "root") for s in scenarios}) or None)
    except ir.ExportError as e:
        # the tree + harness does not load (e.g. a refactoring removed an unexported function a harness names):
        # nothing can be decided - reported as such, never as a violation (DESIGN.md section 8)
        print("INCONCLUSIVE: property=%s SKIPPED anchor-missing: the harness does not build against this tree:\n%s" % (prop, str(e)[-1500:]))
        ev = dict(property_id=prop, tier=a.tier, seed=seed, level="model_checking",
                  coverage=dict(states=1, transitions=1, traces_validated_against_impl=0,
                                samples=[dict(note="harness did not build; no scenario was explored")], obligations=0, discharged=0,
                                exhaustive=False, explanation="SKIPPED anchor-missing: " + str(e)[-600:]),
                  assumptions=[], wall_s=round(time.time() - t0, 2), violations=0)
        evdir = os.environ.get("VERIF_EVIDENCE_DIR") or os.path.join(VERIF, "evidence")
        os.makedirs(evdir, exist_ok=True)
        with open(os.path.join(evdir, prop + ".json"), "w") as fh:
            json.dump(ev, fh, indent=1)
        sys.exit(0)
    known = json.load(open(os.path.join(VERIF, "known_findings.json")))
    kfs = [f for f in known.get("findings", []) if f["property"] == prop]
    jobs = [(s, sess.sock, sess.pkgpath(s.get("harness", "root")), seed, a.v and len(scenarios) == 1, kfs) for s in scenarios]
    if len(jobs) == 1 or a.j == 1:
        results = [run_scenario(j) for j in jobs]
    else:
        with multiprocessing.get_context("fork").Pool(min(a.j, len(jobs))) as pool:
            results = pool.map(run_scenario, jobs, chunksize=1)
    violations = []
    known_hits = []
    inconclusive = []
    n_obl = n_dis = 0
    samples = []
    replays_ok = 0
    os.makedirs(os.path.join(VERIF, "replays"), exist_ok=True)
    for sc, res in zip(scenarios, results):
        if res["status"] != "ok":
            inconclusive.append((res["name"], res["notes"]))
        for ob in res["obligations"]:
            n_obl += 1
            if ob["verdict"] == "holds":
                n_dis += 1
                continue
            if ob["verdict"] != "violated":
                continue
            # known finding?
            kf = None
            for f in known.get("findings", []):
                if f["property"] == prop and f["scenario"] == res["entry"] and f["obligation"] == ob["msg"] and f.get("kind", ob["kind"]) == ob["kind"]:
                    kf = f
                    break
            if kf is not None and ob.get("outside_known") in ("sat", "unknown"):
                # a violation that no listed signature covers: reported, the listed one is still printed
                known_hits.append((kf, ob))
                kf = None
            cex = ob["cex"]
            h = hashlib.sha1(json.dumps([res["entry"], ob["msg"], ob["pos"]], sort_keys=True).encode()).hexdigest()[:10]
            rp = os.path.join(VERIF, "replays", "%s-%s-%s.json" % (prop, res["entry"], h))
            doc = dict(property=prop, entry=res["entry"], harness=sc.get("harness", "root"), obligation=ob["msg"], kind=ob["kind"],
                       pos=ob["pos"], nondets=cex["nondets"], schedule=cex["schedule"], log=cex["log"],
                       how="./check %s --replay %s" % (prop, os.path.relpath(rp, VERIF)))
            if kf is not None:
                known_hits.append((kf, ob))
                ob["known_finding"] = True
                continue
            with open(rp, "w") as fh:
                json.dump(doc, fh, indent=1, default=str)
            reproduced, out = (None, "")
            if not a.no_native:
                runs = sc.get("native_runs", 1)
                reproduced, out = native_replay(sess, sc.get("harness", "root"), sc, ob, rp, runs=runs)
                doc["native"] = dict(reproduced=reproduced, runs=runs, tail=out[-1200:])
                with open(rp, "w") as fh:
                    json.dump(doc, fh, indent=1, default=str)
            ob["native_reproduced"] = reproduced
            if reproduced:
                replays_ok += 1
            violations.append((res, ob, rp, reproduced))
    # differential validation: scenarios whose obligations all hold are also run natively on the real build with the inputs
    # of their reachability witness; no assertion may fail there either
    validated = 0
    disagreements = []
    if not a.no_native and not a.replay:
        cands = [(sc, res) for sc, res in zip(scenarios, results)
                 if res["status"] == "ok" and res.get("witness") and sc.get("native", True)
                 and not any(o["verdict"] != "holds" for o in res["obligations"])]
        lim = int(os.environ.get("VERIF_NATIVE_MAX", "6" if a.tier == "quick" else "16"))
        for sc, res in cands[:lim]:
            rp = os.path.join(VERIF, "replays", "tmp-%s-%s-%d.json" % (prop, res["entry"], os.getpid()))
            with open(rp, "w") as fh:
                json.dump(dict(nondets=res["witness"]["nondets"]), fh)
            hit, out = native_replay(sess, sc.get("harness", "root"), sc, dict(kind="assert", msg="VERIF-"), rp, runs=1, timeout=90)
            os.remove(rp)
            if "\nok " in out or out.startswith("ok ") or "PASS" in out:
                validated += 1
            elif "VERIF-FAILED" in out or "VERIF-PANIC" in out:
                disagreements.append((res["name"], out[-400:]))
    wall = time.time() - t0
    # ---------------------------------------------------------------- evidence
    funcs = sorted({f for r in results for f in r["functions"] if "verif" not in f.rsplit(".", 1)[-1].lower() or True})
    real_funcs = [f for f in funcs if "zz_verif" not in f and ".verif" not in f and ".Verif" not in f]
    for r in results:
        if r.get("witness") and len(samples) < 3:
            samples.append(dict(scenario=r["name"], reach=r["witness"]["label"], nondets=r["witness"]["nondets"],
                                schedule=r["witness"]["schedule"][:25]))
    for res, ob, rp, rep in violations[:3]:
        samples.append(dict(scenario=res["name"], violated=ob["msg"], schedule=ob["cex"]["schedule"][:40], nondets=ob["cex"]["nondets"]))
    for kf, ob in known_hits[:3]:
        samples.append(dict(known_finding=kf["what"], obligation=ob["msg"], schedule=ob["cex"]["schedule"][:40], nondets=ob["cex"]["nondets"]))
    if not samples:
        samples.append(dict(note="no reachability label registered", scenarios=[r["name"] for r in results]))
    xsum = {}
    for r in results:
        for k, v in (r["stats"].get("xcheck") or {}).items():
            if k == "disagreements":
                xsum.setdefault(k, []).extend(v)
            else:
                xsum[k] = xsum.get(k, 0) + v
    if xsum:
        print("cross-solver: " + ", ".join("%s=%s" % (k, v if k != "disagreements" else len(v)) for k, v in sorted(xsum.items())))
        for d in xsum.get("disagreements", []):
            print("INCONCLUSIVE: property=%s cross-solver disagreement %s" % (prop, d))
    ev = dict(
        property_id=prop, tier=a.tier, seed=seed, level="model_checking",
        coverage=dict(
            states=max(1, sum(r["stats"].get("macro_steps", 0) for r in results)),
            transitions=max(1, sum(r["stats"].get("candidates", 0) for r in results)),
            traces_validated_against_impl=replays_ok + validated,
            native_disagreements=[dict(scenario=n, tail=t) for n, t in disagreements],
            samples=samples,
            obligations=n_obl, discharged=n_dis,
            known_findings=[dict(scenario=kf["scenario"], obligation=kf["obligation"], what=kf["what"]) for kf, ob in known_hits],
            inconclusive=[dict(scenario=n, notes=notes) for n, notes in inconclusive],
            exhaustive=all(r.get("complete") and r["status"] == "ok" for r in results),
            functions_encoded=real_funcs,
            scenarios=[dict(name=r["name"], entry=r["entry"], status=r["status"], K=r["K"], bounds=r["bounds"],
                            steps=r["stats"].get("steps"), threads=r["stats"].get("threads"), complete=r.get("complete"),
                            cuts=r.get("cuts", []),
                            reach=r["reach"], queries=r["stats"].get("solver_checks"), solver_s=round(r["stats"].get("solver_s", 0), 2),
                            instrs=r["stats"].get("instrs"), wall_s=r["wall_s"],
                            obligations=[dict(kind=o["kind"], msg=o["msg"], pos=o["pos"], verdict=o["verdict"], n=o["n"]) for o in r["obligations"]])
                       for r in results],
            queries=sum(r["stats"].get("solver_checks", 0) for r in results),
            solver_s=round(sum(r["stats"].get("solver_s", 0) for r in results), 2),
            explanation=getattr(mod, "EXPLANATION", ""),
            **({"cross_solver": xsum} if xsum else {}),
        ),
        assumptions=getattr(mod, "ASSUMPTIONS", []) + [
            "runtime model of gobmc (channels, select, sync, atomic, context) as in DESIGN.md 2.5",
            "sequential consistency; local code between two synchronisation operations is atomic (data-race freedom assumed)",
            "z3 %s" % z3.get_version_string(),
        ],
        wall_s=round(wall, 2), violations=len(violations))
    evdir = os.environ.get("VERIF_EVIDENCE_DIR") or os.path.join(VERIF, "evidence")   # (sweeps over seeded changes write elsewhere)
    os.makedirs(evdir, exist_ok=True)
    with open(os.path.join(evdir, prop + ".json"), "w") as fh:
        json.dump(ev, fh, indent=1, default=str)
    # ---------------------------------------------------------------- report
    for r in results:
        nv = sum(1 for o in r["obligations"] if o["verdict"] == "violated")
        print("%-34s %-12s steps=%-3s obligations=%d violated=%d  %.1fs %s" % (
            r["name"], r["status"], r["stats"].get("steps"), len(r["obligations"]), nv, r["wall_s"],
            ("; ".join(r["notes"]))[:300]))
    for kf, ob in known_hits:
        print("KNOWN-FINDING: property=%s %s [%s: %s]" % (prop, kf["what"], kf["scenario"], kf["obligation"]))
    for n, notes in inconclusive:
        print("INCONCLUSIVE: property=%s scenario=%s %s" % (prop, n, "; ".join(notes)[:400]))
    for n, t in disagreements:
        print("INCONCLUSIVE: property=%s scenario=%s the native run with the witness inputs fails an assertion the encoding discharged (encoding or stub suspect): %s" % (prop, n, t.replace("\n", " ")[-300:]))
    rc = 0
    for res, ob, rp, rep in violations:
        if rep is False:
            print("UNCONFIRMED: property=%s scenario=%s obligation=%r solver counterexample did not reproduce natively (replay=%s)" % (
                prop, res["entry"], ob["msg"], os.path.relpath(rp, VERIF)))
            if not sc_requires_native(scenarios, res):
                print("VIOLATION property=%s replay=%s" % (prop, rp))
                rc = 1
        else:
            print("VIOLATION property=%s replay=%s" % (prop, rp))
            rc = 1
    print("%s tier=%s obligations=%d discharged=%d known=%d violations=%d inconclusive=%d wall=%.1fs" % (
        prop, a.tier, n_obl, n_dis, len(known_hits), len(violations), len(inconclusive), wall))
    sess.close()
    sys.exit(rc)


def sc_requires_native(scenarios, res):
    for s in scenarios:
        if s["entry"] == res["entry"]:
            return s.get("require_native", False)
    return False


if __name__ == "__main__":
    main()
