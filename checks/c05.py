from common import STD, ROOT
PROPERTY = "C05"
EXPLANATION = ("Fork decision of the inclusive gateway: real newInclusiveGateway / run / trySync / flowTracker / distributeFlows and the real flow loop "
               "(probeAction and flowAction arms) for a token positioned at the gateway of an instance built by NewProcess; the truth value of every "
               "condition is a solver variable, downstream nodes are recording sinks, the scheduler is symbolic. "
               "Join: the bookkeeping of the join's picture of live tokens (flowTracker.handleTrace, activeFlowsInCohort) is decided over trace histories (C05.b); the release decision itself "
               "is NOT covered by a registered scenario: its smallest scenario (fork gateway, two branches, join gateway, two flow trackers) did not close "
               "within the time budget of this engine.")
ASSUMPTIONS = ["expression engines replaced by an oracle returning one symbolic boolean per conditional flow",
               "tracer replaced by the synchronous stub (contract established by C09)",
               "the gateway's flow tracker (asynchronously maintained picture of live tokens) is replaced by a stand-in answering that the asking flow is the only live flow of its cohort - the situation of one token reaching a forking gateway; with the real tracker goroutine the smallest scenario did not close within the budget",
               "the gateway's re-queue path (probe report before the second request) is followed at most once (stated cut)",
               "bounds: 1..3 conditional flows, default absent or at every list position, one token",
               "C05.b: flowTracker.handleTrace / activeFlowsInCohort driven directly (no goroutine) with solver-chosen trace histories and compared with a reference picture of live flows; the join's release decision (trySync over this picture under a real schedule) is not covered"]
SL = {"inclusiveGateway).run": 1}
OV = dict(STD)
OV[ROOT + ".newFlowTracker"] = "verifNewFlowTracker"
OV["(*%s.flowTracker).activeFlowsInCohort" % ROOT] = "verifActiveFlowsInCohort"
EO = ["a token is placed on every outgoing flow whose condition is true"]


def sc(n, d, tiers=("quick", "thorough"), K=110):
    dn = "nodef" if d < 0 else "def%d" % d
    eo = list(EO) + (["the default flow alone is taken when no condition is true"] if d >= 0 else ["no true condition and no default: an error trace is emitted"])
    if n == 1:
        eo = []
    return dict(name="C05.a fork n=%d %s" % (n, dn), entry="VerifC05_n%d_%s" % (n, dn), K=K, reach=["quiescent"], overrides=OV, spawn_limits=SL,
                tiers=tiers, expect_obligations=eo, native=False,
                bounds="%d conditional flows (all truth assignments), default %s" % (n, "absent" if d < 0 else "at list position %d" % d))


def tr(L, tiers=("quick", "thorough")):
    return dict(name="C05.b join bookkeeping L=%d" % L, entry="VerifC05b_Tracker_L%d" % L, K=4 * L + 10, reach=["end"], sequential=True, tiers=tiers,
                max_instr=3000000, map_perm=False,
                expect_obligations=["the tracker knows that a flow has been created towards its node from the first such trace on, and never forgets it",
                                    "the tracker's set of live flows is exactly the flows created and not yet terminated"],
                bounds="trace histories of length %d over 3 flow ids x {created towards the join, created elsewhere, tagged by an inclusive fork, terminated}" % L)


SCENARIOS = [tr(2), tr(3), tr(4, ("thorough",)), sc(1, -1), sc(2, -1), sc(2, 0), sc(2, 1), sc(2, 2), sc(3, 1, ("thorough",)), sc(3, -1, ("thorough",))]
