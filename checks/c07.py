from common import STD
PROPERTY = "C07"
EXPLANATION = ("Reduced claim over a small corpus: a token is at a listening catch event, a half-full parallel join, an exclusive gateway, or the "
               "alternatives of an event-based gateway (real node goroutines and flow loop), and the context is cancelled - by a goroutine of its own, so the "
               "cancellation point ranges over the whole scenario under the symbolic scheduler, or once everything is quiet. Decided: every token's goroutine exits "
               "(the flow wait group reaches zero) and the token does not move on. A token at a pending task (thorough tier) does not close within the budget. "
               "Termination of a real tracer after cancellation is decided by C09.b (quick tier); tracer + relay wind-down is a thorough-tier scenario here that did not close when written, timers never firing after cancellation C13's, waiters with "
               "expired contexts C02's. NOT covered: sub-processes, boundary listeners, goroutine-leak freedom of node goroutines (only the flow wait group is "
               "observed), tracer/relay termination inside an instance, task requests racing with the cancellation.")
ASSUMPTIONS = ["tracer replaced by the synchronous stub (so tracer termination is not part of this scenario)",
               "the exclusive gateway's re-queue path (probe report before the second request) is followed at most once (stated cut)",
               "corpus of five programs; the other node kinds of the property's corpus are outside the registered bounds"]
def sc(entry, name, bounds, K=100, tiers=("quick", "thorough")):
    return dict(name=name, entry=entry, K=K, reach=["quiescent"], overrides=STD, bounds=bounds, spawn_limits={"exclusiveGateway).run": 1}, tiers=tiers,
                expect_obligations=["a cancelled instance does not move on", "after cancellation every sender handle registered with the instance's tracer is released (the tracer can terminate)"])


RELAY_EO = ["every Send of a registered sender returns after cancellation", "after cancellation and the last sender's Done the inner tracer's goroutine has exited",
            "after cancellation the relay has released its sender handle and the outer tracer's goroutine has exited",
            "traces sent by a registered sender before it reports Done are relayed even after cancellation"]
RELAY2_EO = ["every Send of a registered sender returns after cancellation", "after cancellation and the last sender's Done the inner tracer's goroutine has exited",
             "after cancellation the relay has released its sender handle on the outer tracer",
             "traces sent by a registered sender before it reports Done are relayed even after cancellation"]
SCENARIOS = [
    sc("VerifC07_ListeningCatch", "C07 cancel while a catch event listens (quiet point)", "token listening at a catch event; cancellation once everything is quiet"),
    sc("VerifC07_ListeningCatchAnywhere", "C07 cancel at an arbitrary point, catch event", "token on its way to / listening at a catch event; cancellation at every point of every interleaving"),
    sc("VerifC07_ExclusiveGateway", "C07 cancel at an arbitrary point, exclusive gateway", "one token at an exclusive gateway with a conditional and a default flow; cancellation at every point of every interleaving", K=120, tiers=("thorough",)),
    sc("VerifC07_EventBasedWaiting", "C07 cancel while the alternatives of an event-based gateway wait", "two alternatives (stand-in event nodes) waiting; cancellation once everything is quiet", K=120),
    sc("VerifC07_HalfFullJoin", "C07 cancel at an arbitrary point, half-full parallel join", "one token at a 2-way parallel join; cancellation at every point of every interleaving"),
    sc("VerifC07_JoinEnteredTwice", "C07 cancel while two tokens wait at a 3-way join", "two tokens parked at a 3-way parallel join (gateway entered twice); cancellation once everything is quiet"),
    dict(name="C07 cancel while a task request is pending", entry="VerifC07_PendingTask", K=120, reach=["quiescent"], overrides=STD, tiers=("thorough",),
         expect_obligations=["a cancelled instance does not move on"],
         bounds="one token at a pending task, cancellation at every point of every interleaving"),
    dict(name="C07 tracer + relay wind down, cancel first", entry="VerifC07_Relay_CancelFirst_2", harness="tracing", K=90, reach=["quiescent"], tiers=("thorough",),
         overrides={"(*github.com/olive-io/bpmn/v2/pkg/tracing.tracer).Subscribe": "verifSubscribe1"},
         expect_obligations=RELAY_EO[:3],
         bounds="real inner + outer tracer and NewRelay; context cancelled, then 1 registered sender x 2 traces; relay subscription capacity 1 (stand-in for 10); "
                "did not close within 600 s / 39 steps when written - kept in the thorough tier, INCONCLUSIVE when it does not close"),
    dict(name="C07 inner tracer + relay wind down (outer tracer stand-in), cancel first", entry="VerifC07_RelayStubOut_CancelFirst_2", harness="tracing", K=90, reach=["quiescent"], native=False, tiers=("thorough",),
         overrides={"(*github.com/olive-io/bpmn/v2/pkg/tracing.tracer).Subscribe": "verifSubscribe1"},
         expect_obligations=RELAY2_EO,
         bounds="real inner tracer and NewRelay goroutine, outer tracer a recording stand-in; context cancelled, then 1 registered sender x 2 traces; relay subscription capacity 1 (stand-in for 10)"),
    dict(name="C07 inner tracer + relay wind down (outer tracer stand-in), cancel anywhere", entry="VerifC07_RelayStubOut_Anywhere_2", harness="tracing", K=120, reach=["quiescent"], native=False, tiers=("thorough",),
         overrides={"(*github.com/olive-io/bpmn/v2/pkg/tracing.tracer).Subscribe": "verifSubscribe1"},
         expect_obligations=RELAY2_EO,
         bounds="as above, cancellation from a goroutine of its own (every point of every interleaving)"),
]
