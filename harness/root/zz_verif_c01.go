package bpmn

import (
	"context"

	"github.com/olive-io/bpmn/v2/pkg/data"
	"github.com/olive-io/bpmn/v2/pkg/expression"
)

// C01: token flow conforms to BPMN semantics - decided per engine step (see DESIGN.md section 4, C01).

// answers at most `max` task requests, in the order they were traced
func verifAnswerUpTo(inst *verifInst, max int) {
	go func() {
		for i := 0; i < max; i++ {
			t := <-inst.tasks
			t.Do()
		}
	}()
}

// C01.a/b: a token arrives at task `a` (real task node, harness, flow loop); the task is answered; `a` has n outgoing
// sequence flows, each unconditional or conditional (solver's choice of the truth values).  BPMN: the task is requested
// exactly once for the token, and the token continues on every unconditional flow and every conditional flow whose
// condition is true.
func verifC01Task(n int, conditional [3]bool) {
	b := verifNewB("p")
	outs := make([]string, 0, 3)
	for i := 0; i < n; i++ {
		outs = append(outs, verifFlowNames[i])
	}
	b.task("a", []string{"in"}, outs)
	b.flow("in", "s", "a", false)
	var c [3]bool
	for i := 0; i < n; i++ {
		b.flow(verifFlowNames[i], "a", verifTaskNames[i], conditional[i])
		b.task(verifTaskNames[i], []string{verifFlowNames[i]}, nil)
		c[i] = true
		if conditional[i] {
			c[i] = verifNondetBool("c")
			b.cond(verifFlowNames[i], c[i])
		}
	}
	inst := verifNewInst(b)
	if inst.proc == nil {
		return
	}
	var hits [3]int64
	for i := 0; i < n; i++ {
		inst.sinkAt(verifTaskNames[i], &hits[i])
	}
	verifAnswerUpTo(inst, 1) // a second request for the same token is observed, not answered
	inst.tokenAt("a", "in")
	verifQuiesce()
	verifReach("quiescent")
	verifAssert(inst.count("a") >= 1, "an enabled activity is never skipped")
	verifAssert(inst.count("a") <= 1, "an activity is requested exactly once per token")
	for i := 0; i < n; i++ {
		if c[i] {
			verifAssert(verifGet(&hits[i]) == 1, "the token continues on every outgoing flow that is unconditional or whose condition is true")
		} else {
			verifAssert(verifGet(&hits[i]) == 0, "the token does not continue on a flow whose condition is false")
		}
	}
	verifAssert(inst.errs == 0, "no error trace for a successful answer")
}

func VerifC01_Task_U()  { verifC01Task(1, [3]bool{false, false, false}) }
func VerifC01_Task_UU() { verifC01Task(2, [3]bool{false, false, false}) }
func VerifC01_Task_C()  { verifC01Task(1, [3]bool{true, false, false}) }
func VerifC01_Task_CC() { verifC01Task(2, [3]bool{true, true, false}) }
func VerifC01_Task_UC() { verifC01Task(2, [3]bool{false, true, false}) }
func VerifC01_Task_CU() { verifC01Task(2, [3]bool{true, false, false}) }

// C01.e micro-program: whole instance start -> a -> end built by the real NewProcess and started by the real StartAll
func VerifC01e_Seq() {
	b := verifNewB("p")
	b.start("s", "f1")
	b.flow("f1", "s", "a", false)
	b.task("a", []string{"f1"}, []string{"f2"})
	b.flow("f2", "a", "e", false)
	b.end("e", "f2")
	inst := verifNewInst(b)
	if inst.proc == nil {
		return
	}
	verifAnswerUpTo(inst, 2)
	err := inst.proc.StartAll(inst.ctx)
	verifAssert(err == nil, "StartAll succeeds")
	verifQuiesce()
	verifReach("quiescent")
	verifAssert(inst.count("a") == 1, "an activity is requested exactly once per token")
	verifAssert(inst.count("done:e") == 1, "the instance reaches exactly the end events the token game reaches")
	verifAssert(inst.ceased == 1, "instance completed (cease-flow trace emitted once)")
}

// C01.f: a condition is evaluated against the instance's data as it is at that moment - also when the same token (flow
// object) has evaluated a condition before and another token's task result has changed a variable since.
// Real flow.executeSequenceFlow, FlowDataLocator.SetVariable/CloneVariables, schema.Value; symbolically only the expression
// engine is a stand-in (verifGetEngine: looks the expression text up among the properties it is handed).
type verifEngine struct{}

func (verifEngine) CompileExpression(source string) (expression.ICompiledExpression, error) {
	return source, nil
}
func (verifEngine) EvaluateExpression(c expression.ICompiledExpression, props interface{}) (expression.IResult, error) {
	m, _ := props.(map[string]any)
	return m[c.(string)], nil
}
func (verifEngine) SetItemAwareLocator(string, data.IItemAwareLocator) {}

func verifGetEngine(ctx context.Context, lang string) expression.IEngine { return verifEngine{} }

func VerifC01f_ConditionSeesCurrentData() {
	v0 := verifNondetBool("v0")
	v1 := verifNondetBool("v1")
	b := verifNewB("p")
	b.task("a", []string{"in"}, []string{"f1", "f2"})
	b.flow("in", "s", "a", false)
	b.flow("f1", "a", "t1", true)
	b.flow("f2", "a", "t2", true)
	b.task("t1", []string{"f1"}, nil)
	b.task("t2", []string{"f2"}, nil)
	b.cond("f1", v0)
	b.cond("f2", v0)
	inst := verifNewInst(b)
	if inst.proc == nil {
		return
	}
	p := inst.proc
	fl := newFlow(inst.defs, inst.nodeAt("a"), p.subTracer, p.flowNodeMapping, &p.flowWaitGroup, p.idGenerator, nil, p.locator)
	pe := &inst.defs.ProcessField[0]
	sf1 := NewSequenceFlow(&pe.SequenceFlowField[1], pe)
	sf2 := NewSequenceFlow(&pe.SequenceFlowField[2], pe)
	verifReach("built")
	r1, err1 := fl.executeSequenceFlow(inst.ctx, sf1, false)
	verifAssert(err1 == nil && r1 == v0, "a condition is evaluated against the instance's data")
	// another token's task result is applied (flow.Start does f.locator.SetVariable for every result variable)
	p.locator.SetVariable("f2", v1)
	r2, err2 := fl.executeSequenceFlow(inst.ctx, sf2, false)
	verifAssert(err2 == nil && r2 == v1, "a condition evaluated after another token changed a variable sees the new value")
	// and the token's own earlier evaluation is repeatable
	r3, err3 := fl.executeSequenceFlow(inst.ctx, sf1, false)
	verifAssert(err3 == nil && r3 == v0, "a condition is evaluated against the instance's data")
}
