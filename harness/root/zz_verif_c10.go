package bpmn

import (
	"context"

	"github.com/olive-io/bpmn/schema"
	"github.com/olive-io/bpmn/v2/pkg/event"
)

// C10: boundary events.  Real newHarness (boundary listener flows, interrupting action transformer), harness.run / ConsumeEvent,
// genericTask.run / Cancel, the boundary catchEvent, the flow loop for the host token and the boundary listener.
func (b *verifB) boundary(nid, host, signal string, interrupting bool, out string) {
	e := schema.DefaultBoundaryEvent()
	b.node(&e.FlowNode, nid, nil, []string{out})
	e.SetAttachedToRef(schema.QName(host))
	ca := interrupting
	e.SetCancelActivity(&ca)
	d := schema.DefaultSignalEventDefinition()
	q := schema.QName(signal)
	d.SetSignalRef(&q)
	e.SetSignalEventDefinitions([]schema.SignalEventDefinition{d})
	b.p.BoundaryEventField = append(b.p.BoundaryEventField, e)
}

type verifErr struct{}

func (verifErr) Error() string { return "task failed" }

func verifC10Inst(interrupting bool) (*verifInst, *int64, *int64) {
	b := verifNewB("p")
	b.flow("in", "s", "a", false)
	b.task("a", []string{"in"}, []string{"n"})
	b.flow("n", "a", "nx", false)
	b.task("nx", []string{"n"}, nil)
	b.boundary("be", "a", "sigb", interrupting, "x")
	b.flow("x", "be", "ex", false)
	b.task("ex", []string{"x"}, nil)
	inst := verifNewInst(b)
	if inst.proc == nil {
		return nil, nil, nil
	}
	var nx, ex int64
	inst.sinkAt("nx", &nx)
	inst.sinkAt("ex", &ex)
	return inst, &nx, &ex
}

// the event arrives while the task waits for its answer; the task is answered afterwards
func verifC10EventThenAnswer(interrupting bool) {
	inst, nx, ex := verifC10Inst(interrupting)
	if inst == nil {
		return
	}
	inst.tokenAt("a", "in")
	verifQuiesce() // the task request is pending, the boundary event listens
	verifAssert(inst.count("a") == 1, "the host task is requested")
	inst.proc.ConsumeEvent(event.NewSignalEvent("sigb"))
	verifQuiesce()
	verifAssert(verifGet(ex) == 1, "a matching event while the activity waits makes the exception flow continue exactly once")
	t := <-inst.tasks
	t.Do()
	verifQuiesce()
	verifReach("quiescent")
	verifAssert(verifGet(ex) == 1, "the exception flow continues exactly once per event")
	if interrupting {
		verifAssert(verifGet(nx) == 0, "after an interrupting boundary event the normal flow never continues, even if the task is answered afterwards")
	} else {
		verifAssert(verifGet(nx) == 1, "after a non-interrupting boundary event the normal flow still continues when the task is answered")
	}
}

func VerifC10_NonInterrupting_EventThenAnswer() { verifC10EventThenAnswer(false) }
func VerifC10_Interrupting_EventThenAnswer()    { verifC10EventThenAnswer(true) }

// the task is answered (successfully or with an error that is not retried); a matching event arrives afterwards
func verifC10AnswerThenEvent(withErr bool) {
	inst, nx, ex := verifC10Inst(false)
	if inst == nil {
		return
	}
	go func() {
		t := <-inst.tasks
		if withErr {
			t.Do(DoWithErr(verifErr{}))
		} else {
			t.Do()
		}
	}()
	inst.tokenAt("a", "in")
	verifQuiesce()
	verifAssert(verifGet(nx) == 1, "the normal flow continues when the task is answered")
	inst.proc.ConsumeEvent(event.NewSignalEvent("sigb"))
	verifQuiesce()
	verifReach("quiescent")
	verifAssert(verifGet(ex) == 0, "once the activity has completed its boundary events no longer react")
}

func VerifC10_AnswerThenEvent()    { verifC10AnswerThenEvent(false) }
func VerifC10_ErrAnswerThenEvent() { verifC10AnswerThenEvent(true) }

// ---- reduced scenarios: the host activity is a stand-in that answers at once (successfully or with an error that is
// not retried); the activity harness with its boundary listeners, the boundary catch event and the flows are the real code.
type verifInstantActivity struct {
	elem    schema.FlowNodeInterface
	outs    []*SequenceFlow
	withErr bool
}

func (n *verifInstantActivity) NextAction(ctx context.Context, flow Flow) chan IAction {
	ch := make(chan IAction, 1)
	rsp := &FlowActionResponse{}
	if n.withErr {
		rsp.err = verifErr{}
	}
	verifPushAction(ch, flowAction{response: rsp, sequenceFlows: n.outs})
	return ch
}
func (n *verifInstantActivity) Element() schema.FlowNodeInterface { return n.elem }
func (n *verifInstantActivity) Type() ActivityType                { return TaskActivity }
func (n *verifInstantActivity) Cancel() <-chan bool {
	ch := make(chan bool, 1)
	verifPushBool(ch, true)
	return ch
}

func verifPushBool(ch chan bool, v bool) { ch <- v }

func verifC10InstantThenEvent(withErr bool) {
	inst, nx, ex := verifC10Inst(false)
	if inst == nil {
		return
	}
	h := inst.nodeAt("a").(*harness)
	h.activity = &verifInstantActivity{elem: inst.elem("a"), outs: allSequenceFlows(&h.outgoing), withErr: withErr}
	inst.tokenAt("a", "in")
	verifQuiesce()
	verifAssert(verifGet(nx) == 1, "the normal flow continues when the task is answered")
	inst.proc.ConsumeEvent(event.NewSignalEvent("sigb"))
	verifQuiesce()
	verifReach("quiescent")
	verifAssert(verifGet(ex) == 0, "once the activity has completed its boundary events no longer react")
}

func VerifC10_InstantAnswerThenEvent()    { verifC10InstantThenEvent(false) }
func VerifC10_InstantErrAnswerThenEvent() { verifC10InstantThenEvent(true) }
