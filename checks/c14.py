PROPERTY = "C14"
EXPLANATION = ("Real logic.NewCatchEventSatisfier / CatchEventSatisfier.Satisfy (and the bitset methods it calls, from the "
               "dependency's SSA) executed symbolically over event histories h_1..h_L: every h_j is a solver variable ranging over "
               "the n definitions plus a non-matching event; the paths of one history step are merged at the loop head, so one unsat "
               "answer covers all (n+1)^L histories.")
ASSUMPTIONS = ["event definitions are n distinct signal definitions (matching is string equality on the signal ref)",
               "histories up to the stated length L; longer histories are outside the claim"]
EO = ["never fires more often than the least-matched definition",
      "fired exactly k times when every definition matched k times",
      "no partial chain left when all definitions matched equally often",
      "non-matching event reports no match", "non-matching event changes nothing"]


def sc(n, L, tiers, parallel=True, K=None):
    if parallel:
        return dict(**({"time_budget_s": 600} if (n, L) == (2, 6) else {}), name="C14 parallel-multiple n=%d L=%d" % (n, L), entry="VerifC14_Par%d_L%d" % (n, L), harness="logic",
                    K=K or (3 * L + 10), reach=["end"], tiers=tiers, expect_obligations=EO if n > 1 else EO[3:],
                    bounds="%d definitions, all histories of length %d over {d0..d%d, none}" % (n, L, n - 1))
    return dict(name="C14 multiple n=%d L=%d" % (n, L), entry="VerifC14_Multi%d_L%d" % (n, L), harness="logic",
                K=K or (3 * L + 10), reach=["end"], tiers=tiers,
                expect_obligations=["plain multiple fires on every matching event", "non-matching event reports no match"],
                bounds="%d definitions (not parallel), all histories of length %d" % (n, L))


SCENARIOS = [
    sc(1, 4, ("quick", "thorough")),
    sc(2, 4, ("quick", "thorough")),
    sc(2, 5, ("quick", "thorough")),
    sc(2, 6, ("quick", "thorough")),
    sc(3, 5, ("quick", "thorough")),
    sc(3, 5, ("quick", "thorough"), parallel=False),
    sc(3, 6, ("thorough",)),
    sc(4, 6, ("thorough",)),
    sc(3, 9, ("thorough",)),
    sc(4, 9, ("thorough",)),
    dict(name="C14 throw-event counterpart n=2 L=4", entry="VerifC14_Throw2_L4", harness="logic", K=22, reach=["end"],
         expect_obligations=EO[:2], bounds="ThrowEventSatisfier, 2 definitions, all histories of length 4"),
    dict(name="C14 throw-event counterpart n=3 L=5", entry="VerifC14_Throw3_L5", harness="logic", K=25, reach=["end"], tiers=("thorough",),
         expect_obligations=EO[:2], bounds="ThrowEventSatisfier, 3 definitions, all histories of length 5"),
    dict(name="C14 parallel-multiple n=2, 4 events from any nested state", entry="VerifC14_From2_L4", harness="logic", K=30, reach=["pre-state", "end"], tiers=("thorough",),
         expect_obligations=EO[:3],
         bounds="2 definitions; pre-state: any of the 7 families of k <= 3 open chains (all equal, non-empty, not full; reachable without a completion); then all histories of length 4 (histories of length up to 7 from the empty state)"),
    dict(name="C14 parallel-multiple n=2, 5 events from any nested state", entry="VerifC14_From2_L5", harness="logic", K=30, reach=["pre-state", "end"], tiers=("thorough",),
         expect_obligations=EO[:3], bounds="as above, histories of length 5"),
    dict(name="C14 parallel-multiple n=3, 2 events from any nested state", entry="VerifC14_From3_L2", harness="logic", K=30, reach=["pre-state", "end"],
         expect_obligations=EO[:3],
         bounds="3 definitions; pre-state: any of the 37 families of k <= 3 open chains nested in list order, non-empty, not full (each reachable from the empty satisfier without a completion, see harness); then all histories of length 2"),
    dict(name="C14 parallel-multiple n=3, 3 events from any nested state", entry="VerifC14_From3_L3", harness="logic", K=30, reach=["pre-state", "end"], tiers=("thorough",),
         expect_obligations=EO[:3], bounds="as above, histories of length 3 (about 300 s)"),
    dict(name="C14 parallel-multiple n=3, 4 events from any nested state", entry="VerifC14_From3_L4", harness="logic", K=30, reach=["pre-state", "end"], tiers=("thorough",),
         expect_obligations=EO[:3], bounds="as above, histories of length 4 (did not close within the thorough budget when written)"),
]
