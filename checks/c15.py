PROPERTY = "C15"
EXPLANATION = ("Three sub-claims decided on the real code: (a) AnExpression.MarshalXML / UnmarshalXML with the root's namespace declarations "
               "from the real PreMarshal and encoding/xml's namespace rule as a stated contract: the formal/informal kind and the encoded "
               "value survive; (b) PreMarshal leaves the observable text payload and id unchanged; (c) generated FindBy(ExactId) retrieves every "
               "element of a process literal (incl. one nested in a sub-process) by its id and nothing for absent ids. "
               "Element/attribute fidelity of the reflection-driven encoding/xml (un)marshalling over the generated model, and behavioural "
               "equivalence of the re-parsed model, are NOT claimed (see DESIGN.md section 6).")
ASSUMPTIONS = ["encoding/xml contract: start-tag attributes are emitted verbatim; a decoder reports attribute prefix:local with Space = URL bound to the prefix by an in-scope xmlns:prefix attribute, else the bare prefix",
               "Encoder.EncodeElement / Decoder.DecodeElement are stubs in the symbolic run (the native replay performs a real xml.Marshal/Unmarshal round trip)",
               "text payloads range over the listed pools"]
H = "schema"
XOV = {"(*encoding/xml.Encoder).EncodeElement": "verifEncodeElement", "(*encoding/xml.Decoder).DecodeElement": "verifDecodeElement"}
SCENARIOS = [
    dict(name="C15.a expression kind round trip", entry="VerifC15a_ExpressionKind", harness=H, K=10, sequential=True, overrides=XOV,
         reach=["built", "checked"], bounds="formal/informal x 4 payloads",
         expect_obligations=["the formal or informal kind of an expression survives the XML round trip",
                             "the formal expression itself (body, language, type ref) is what gets encoded"]),
    dict(name="C15.b PreMarshal keeps the observable model", entry="VerifC15b_PreMarshalKeepsPayload", harness=H, K=10, sequential=True,
         reach=["built"], bounds="6 text payloads (whitespace shapes) + absent payload",
         expect_obligations=["serialising does not alter the observable text payload of the element being serialised"]),
    dict(name="C15.c retrievable by id", entry="VerifC15c_FindById", harness=H, K=10, sequential=True, max_instr=3000000,
         reach=["built"], bounds="definitions > process with 7 identified elements of 7 kinds (one nested in a sub-process); 9 queried ids incl. absent and empty",
         expect_obligations=["every element with an id is retrievable by that id", "an id that no element carries retrieves nothing"]),
]
