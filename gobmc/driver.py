"""Bounded model checking driver: the scheduler's choice at every step is an SMT variable.

step k:  pick_k (which thread moves), opt_k (which select case) are fresh variables; every enabled
alternative of every thread is executed symbolically under `guard & enabled & pick_k==tid`, heap
writes are merged back guarded, alternatives at equal locations are merged.  After the last step
the collected obligations (assertions, panics, stuck states) are decided by z3."""
import os
import time
import z3
from vals import *
import interp as I
XCHECK = bool(os.environ.get("GOBMC_XCHECK"))
XCHECK_T = int(os.environ.get("GOBMC_XCHECK_T", "30"))
from interp import Machine, Alt, Thread, Frame, Unsupported, BoundExceeded, _n


def _regs_used(x, acc):
    if isinstance(x, dict):
        if x.get("k") == "r" and "n" in x and len(x) == 2:
            acc.add(x["n"])
            return
        for k, v in x.items():
            if k in ("r", "pos", "t", "xt", "yt", "op", "o", "et", "at", "sig", "argt", "comment"):
                continue
            _regs_used(v, acc)
    elif isinstance(x, list):
        for v in x:
            _regs_used(v, acc)


NO_STUTTER = bool(__import__('os').environ.get('GOBMC_NOSTUTTER'))
NO_RESET = bool(__import__('os').environ.get('GOBMC_NORESET'))


class Liveness:
    def __init__(self):
        self.cache = {}

    def fn_info(self, fn):
        info = self.cache.get(fn.name)
        if info is not None:
            return info
        blocks = fn.blocks
        use = []
        defs = []
        for b in blocks:
            u, d = set(), set()
            for ins in b["instrs"]:
                acc = set()
                _regs_used(ins, acc)
                u |= (acc - d)
                if "r" in ins:
                    d.add(ins["r"])
            use.append(u)
            defs.append(d)
        live_in = [set() for _ in blocks]
        live_out = [set() for _ in blocks]
        changed = True
        while changed:
            changed = False
            for i in reversed(range(len(blocks))):
                out = set()
                for s in blocks[i]["succs"]:
                    out |= live_in[s]
                if fn.recover is not None:
                    out |= live_in[fn.recover]
                inn = use[i] | (out - defs[i])
                if out != live_out[i] or inn != live_in[i]:
                    live_out[i], live_in[i] = out, inn
                    changed = True
        info = (live_out, {})
        self.cache[fn.name] = info
        return info

    def live_at(self, fn, blk, idx):
        live_out, memo = self.fn_info(fn)
        k = (blk, idx)
        r = memo.get(k)
        if r is None:
            live = set(live_out[blk])
            instrs = fn.blocks[blk]["instrs"]
            for j in range(len(instrs) - 1, idx - 1, -1):
                ins = instrs[j]
                if "r" in ins:
                    live.discard(ins["r"])
                acc = set()
                _regs_used(ins, acc)
                live |= acc
            # free variables / params used later are covered by `use`
            r = live
            memo[k] = r
        return r


class Run:
    def __init__(self, prog, entry, K=60, overrides=None, map_perm=False, max_instr=400000, name=None,
                 reduce=True, verbose=False, inits=(), spawn_limits=None, time_budget_s=None, sequential=False, spawn_yield=False):
        self.prog = prog
        self.entry = entry
        self.K = K
        self.m = Machine(prog, max_instr=max_instr)
        self.m.map_perm = map_perm
        self.m.sequential = sequential
        self.spawn_yield = spawn_yield
        self.time_budget_s = time_budget_s
        if spawn_limits:
            self.m.spawn_limits.update(spawn_limits)
        if overrides:
            self.m.overrides.update(overrides)
        self.inits = list(inits)
        self.live = Liveness()
        self.sched = []       # per step: list of (tid, descr, cond, opt)
        self.fires = []
        self.prev = None
        self.foata = not bool(__import__("os").environ.get("GOBMC_NOFOATA"))
        self.npar = 0
        self.can_fire_last = False
        self.last_fires = False
        self.nguard = 0
        self.excl = set()
        self.any_enabled_final = None
        self.quiescent_at = None
        self.verbose = verbose
        self.name = name or entry
        self.reduce = reduce
        self.t0 = time.time()
        if time_budget_s:
            self.m.deadline = self.t0 + time_budget_s
        self.foot = []        # per step: {tid: set(objs)} for the partial-order constraint

    # ------------------------------------------------------------------ setup
    def start(self):
        m = self.m
        th = Thread(0, "main")
        th.fname = self.entry
        m.threads.append(th)
        alt = Alt(th, True)
        m.push_call(alt, self.entry, [])
        # package-level variable initialisers of the named packages run first (concretely, in this thread)
        m.init_allowed = set(self.inits)
        for pkg in reversed(self.inits):
            m.push_call(alt, pkg + ".init", [])
            alt.frames[-1].tag = "init"
        res = m.run_alt(alt)
        self.finish_step(res)

    # ------------------------------------------------------------------ parked-op inspection
    def cur_ins(self, alt):
        fr = alt.frames[-1]
        return fr, fr.fn.blocks[fr.blk]["instrs"][fr.idx]

    def recv_chans(self, alt):
        """[(guard, chan)] on which a parked alternative is ready to receive"""
        if alt.info is not None:
            return []
        fr, ins = self.cur_ins(alt)
        m = self.m
        out = []
        if ins["op"] == "UnOp" and ins["o"] == "<-":
            out = [(g, c) for g, c in alts_of(m.ev(alt, fr, ins["x"])) if c is not None]
        elif ins["op"] == "Select":
            for s in ins["states"]:
                if s["dir"] == 2:
                    out += [(g, c) for g, c in alts_of(m.ev(alt, fr, s["chan"])) if c is not None]
        return out

    def receivers_waiting(self, parked):
        """[(tid, guard, chan)]: parked receivers able to take a value handed over on an unbuffered channel.  A receiver
        (in particular a select over several channels) accepts one hand-over at a time: while a value put by one sender
        is pending on any of its channels it is not a waiter for a second one."""
        m = self.m
        out = []
        for t, a in parked:
            chans = self.recv_chans(a)
            if not chans:
                continue
            pend = OR(*[AND(g, I.slot_full(m, a, c)) for g, c in chans]) if len(chans) > 1 else False
            for g, c in chans:
                out.append((t.tid, AND(a.guard, g, NOT(pend)), c))
        return out

    def options(self, alt, waiters):
        """[(cond, opt, read_objs)] : ways the parked alternative can move now (cond excludes alt.guard)"""
        m = self.m
        alt.rd = set()
        outs = self._options(alt, waiters)
        if outs == "quiesce":
            return outs
        rd = set(alt.rd)
        alt.rd = set()
        return [(c, o, rd | extra) for (c, o, extra) in outs]

    def _options(self, alt, waiters):
        m = self.m
        if alt.ack is not None:
            return [(I.ack_ready(m, alt, alt.ack), None, set())]
        if alt.info is not None:
            name, args = alt.info
            base = name.rsplit(".", 1)[-1] if type(name) is str else ""
            if name == "$goStart":
                return [(True, None, set())]
            if base == "verifQuiesce":
                return "quiesce"
            en = m.enabled.get(name)
            if en is None and type(name) is str and base.startswith("verif"):
                en = m.enabled.get("$" + base)
            cond = en(m, alt, args) if en else True
            return [(cond, None, set())]
        fr, ins = self.cur_ins(alt)
        op = ins["op"]

        def unbuf_wait(chs):
            # a hand-over on an unbuffered channel also claims the receiving thread (two hand-overs to one receiver
            # are dependent transitions: they never fire in the same step)
            out = set()
            for g, c in chs:
                if c is not None and m.hget(alt, c.obj)[0] == 0:
                    out.add(("wait", c.obj))
                    for rt in getattr(waiters, "tids", lambda ch: ())(c):
                        out.add(("rcv", rt))
            return out
        if op == "Send":
            chs = alts_of(m.ev(alt, fr, ins["chan"]))
            cond = OR(*[AND(g, I.send_ready(m, alt, c, waiters)) for g, c in chs])
            return [(cond, None, unbuf_wait(chs))]
        if op == "UnOp":
            chs = alts_of(m.ev(alt, fr, ins["x"]))
            cond = OR(*[AND(g, I.recv_ready(m, alt, c)) for g, c in chs])
            return [(cond, None, set())]
        if op == "Select":
            outs = []
            full = []
            for i, s in enumerate(ins["states"]):
                chs = alts_of(m.ev(alt, fr, s["chan"]))
                if s["dir"] == 1:
                    cond = OR(*[AND(g, I.send_ready(m, alt, c, waiters)) for g, c in chs])
                    outs.append([cond, i, unbuf_wait(chs)])
                    full.append(False)
                else:
                    cond = OR(*[AND(g, I.recv_ready(m, alt, c)) for g, c in chs])
                    outs.append([cond, i, set()])
                    full.append(OR(*[AND(g, I.slot_full(m, alt, c)) for g, c in chs]))
            # a value put by a sender on an unbuffered channel is taken before anything else is chosen
            pri = OR(*full)
            if pri is not False:
                for j, o in enumerate(outs):
                    o[0] = AND(o[0], OR(NOT(pri), full[j]))
            if not ins["blocking"]:
                none = AND(*[NOT(o[0]) for o in outs])
                outs.append([none, -1, set()])
            return [tuple(o) for o in outs]
        raise Unsupported("parked at " + op)

    def describe(self, alt, opt):
        fr, ins = self.cur_ins(alt)
        what = ins["op"]
        if alt.info is not None:
            what = alt.info[0] if type(alt.info[0]) is str else repr(alt.info[0])
            what = what.rsplit("/", 1)[-1]
        elif ins["op"] == "UnOp":
            what = "recv"
        elif ins["op"] == "Select":
            what = "select[%s]" % opt
        pos = ins.get("pos") or ""
        if not pos:
            # nearest position in the frame stack
            for f in reversed(alt.frames):
                for j in range(f.idx, -1, -1):
                    p = f.fn.blocks[f.blk]["instrs"][j].get("pos")
                    if p:
                        pos = p
                        break
                if pos:
                    break
        return "%s %s @%s" % (fr.fn.name.rsplit("/", 1)[-1], what, pos)

    # ------------------------------------------------------------------ one scheduling step
    def footprint_after(self, tid, res, R, W):
        for r in res:
            R[tid].update(r.rd)
            W[tid].update(r.ov.keys())
            if r.status == "parked":
                for g_, c_ in self.recv_chans(r):
                    W[tid].add(("wait", c_.obj))
                if r.info is not None and type(r.info[0]) is str and r.info[0].endswith("verifQuiesce"):
                    W[tid].add("*")

    @staticmethod
    def conflict(R1, W1, R2, W2):
        if "*" in W1 or "*" in W2 or "*" in R1 or "*" in R2:
            return True
        if not W1.isdisjoint(W2):
            return True
        if not W1.isdisjoint(R2):
            return True
        if not W2.isdisjoint(R1):
            return True
        return False

    def step(self, k, retry=False):
        """parallel-step semantics: any set of pairwise independent enabled transitions may fire together;
        in Foata normal form (every transition fired at step k>0 depends on one fired at step k-1)"""
        m = self.m
        m.step = k
        if not NO_RESET:
            m.reset_solver()
        parked = [(t, a) for t in m.threads for a in t.alts]
        rwait = self.receivers_waiting(parked)

        def mk_waiters(tid):
            def waiters(ch):
                return OR(*[g for (tt, g, c) in rwait if tt != tid and c == ch])
            waiters.tids = lambda ch: {tt for (tt, g, c) in rwait if tt != tid and c == ch and g is not False}
            return waiters

        cands = []   # (thread, alt, cond, opt, read objs)
        quiesce = []
        skipped_en = []
        prev = self.prev
        for t, a in parked:
            # event-driven examination: an alternative that was examined before and whose footprint no
            # transition of the previous step touched is exactly as (un)enabled as it was, and by the
            # Foata rule it cannot fire now; it is not re-examined
            if retry and getattr(a, "seen_step", None) == k:
                # second pass over the same step after state-preserving transitions were set aside
                if a.en_last is not False and a.en_last is not None:
                    skipped_en.append(AND(a.guard, a.en_last))
                continue
            is_q = a.info is not None and type(a.info[0]) is str and a.info[0].rsplit(".", 1)[-1] == "verifQuiesce"
            if a.foot is not None and prev is not None and self.foata and not is_q:
                touched = False
                for ptid in prev["fires"]:
                    if ptid == t.tid:
                        continue
                    if (ptid, t.tid) in prev["confl"] or self.conflict(a.foot[0], a.foot[1], prev["R"].get(ptid, ()) or set(), prev["W"].get(ptid, ()) or set()):
                        touched = True
                        break
                if not touched:
                    if self.verbose:
                        print("      skip t%d %s en_last=%s" % (t.tid, self.describe(a, a.opt), "False" if a.en_last is False else ("None" if a.en_last is None else "formula")), flush=True)
                    if a.en_last is not False and a.en_last is not None:
                        skipped_en.append(AND(a.guard, a.en_last))
                    m.stats["skipped"] = m.stats.get("skipped", 0) + 1
                    continue
            opts = self.options(a, mk_waiters(t.tid))
            if opts == "quiesce":
                quiesce.append((t, a))
                continue
            a.seen_step = k
            a.foot = (set(), set())
            a.en_last = False
            for g_, c_ in self.recv_chans(a):
                a.foot[1].add(("wait", c_.obj))
            for cond, opt, robjs in opts:
                a.foot[0].update(robjs)
                if AND(a.guard, cond) is False:
                    continue
                cands.append((t, a, cond, opt, robjs))
        any_other = OR(*([AND(a.guard, cond) for (t, a, cond, opt, robjs) in cands] + skipped_en))
        for t, a in quiesce:
            cands.append((t, a, NOT(any_other), None, {"*"}))
        live = []
        for c in cands:
            a, cond = c[1], c[2]
            if m.feasible(a.guard, cond):
                live.append(c)
                a.en_last = OR(False if a.en_last is None else a.en_last, cond)
        if self.verbose:
            for c in cands:
                print("      cand t%d %s %s" % (c[0].tid, self.describe(c[1], c[3]), "" if c in live else "(infeasible)"), flush=True)
        if not live:
            return False
        any_en = OR(*([AND(a.guard, cond) for (t, a, cond, opt, robjs) in live] + skipped_en))
        tids = sorted({t.tid for (t, a, cond, opt, robjs) in live})
        R = {tid: set() for tid in tids}
        W = {tid: set() for tid in tids}
        for (t, a, cond, opt, robjs) in live:
            R[t.tid].update(robjs)
            W[t.tid].update(o for o in robjs if type(o) is tuple and o and o[0] == "rcv")
            for g_, c_ in self.recv_chans(a):
                W[t.tid].add(("wait", c_.obj))
        deterministic = (len(live) == 1 and not m.feasible(NOT(AND(live[0][1].guard, live[0][2]))))
        if deterministic:
            fires = {tids[0]: True}
        else:
            fires = {tid: z3.Bool("f!%d!%d" % (k, tid)) for tid in tids}
        optb = {}

        def optbit(j, tid):
            # which select case a thread takes: one bit per (thread, case); cases of one thread are exclusive
            j = 0 if j is None else j
            if (tid, j) not in optb:
                optb[(tid, j)] = z3.Bool("o!%d!%d!%d" % (k, tid, j))
            return optb[(tid, j)]
        nstutter = 0
        by_alt = {}
        for c in live:
            by_alt.setdefault(id(c[1]), []).append(c)
        sched = []
        results = []
        en_t = {tid: [] for tid in tids}
        for aid, lst in by_alt.items():
            t, a = lst[0][0], lst[0][1]
            fire = fires[t.tid]
            multi = (len(lst) > 1 or lst[0][3] is not None) and not deterministic
            kept = []
            a.spin = False
            a.en_last = False
            a.seen_step = k
            for (_, _, cond, opt, robjs) in lst:
                child = a.copy()
                g = AND(a.guard, cond, fire)
                if multi:
                    g = AND(g, optbit(opt, t.tid))
                if not deterministic and g is not True and not (z3.is_const(g) and g.decl().kind() == z3.Z3_OP_UNINTERPRETED):
                    self.nguard += 1
                    bname = z3.Bool("c!%d" % self.nguard)
                    m.add_constraint(bname == g)
                    g = bname
                child.guard = g
                child.resume = True
                if a.info is not None and a.info[0] == "$goStart":
                    child.resume = False
                    child.info = None
                child.opt = opt
                child.ninstr = 0
                child.ov = {}
                child.rd = set()
                mark = (len(m.log), len(m.violations), len(m.pending_spawns), len(m.reached), len(m.asserted), len(m.constraints) - m.stats.get("lemmas", 0))
                m.stats["macro_steps"] += 1
                res = m.run_alt(child)
                if self.is_stutter(a, res, mark):
                    # a transition that returns to the same location without changing anything (e.g. a select that keeps
                    # taking an already closed Done channel): not scheduled - it would only stutter - but remembered as a spin
                    if not deterministic:
                        m.add_constraint(NOT(g))
                    a.spin = OR(a.spin, cond)
                    nstutter += 1
                    m.stats["stutters"] = m.stats.get("stutters", 0) + 1
                    continue
                kept.append((cond, opt))
                a.en_last = OR(a.en_last, cond)
                en_t[t.tid].append(AND(a.guard, cond))
                sched.append((t.tid, self.describe(a, opt), g, opt))
                self.footprint_after(t.tid, res, R, W)
                if a.foot is None:
                    a.foot = (set(), set())
                for r in res:
                    a.foot[0].update(r.rd)
                    a.foot[1].update(r.ov.keys())
                    if r.status == "parked":
                        for g_, c_ in self.recv_chans(r):
                            a.foot[1].add(("wait", c_.obj))
                results += res
            if not deterministic:
                if not kept:
                    pass
                elif multi:
                    m.add_constraint(z3.Implies(z3.And(fire, B(a.guard)),
                                                z3.Or(*[z3.And(B(cond), optbit(opt, t.tid)) for (cond, opt) in kept])))
                else:
                    m.add_constraint(z3.Implies(z3.And(fire, B(a.guard)), B(kept[0][0])))
            if deterministic:
                if kept:
                    a.guard = False
            elif kept:
                a.guard = AND(a.guard, NOT(fire))
                if not m.feasible(a.guard):
                    a.guard = False
        if not sched:
            # nothing but state-preserving transitions (or nothing at all) could fire
            self.nspin_steps = getattr(self, "nspin_steps", 0) + (1 if nstutter else 0)
            return "retry" if (nstutter and not retry) else False
        ob = list(optb.items())
        for i in range(len(ob)):
            for j in range(i + 1, len(ob)):
                if ob[i][0][0] == ob[j][0][0]:
                    m.add_constraint(z3.Or(z3.Not(ob[i][1]), z3.Not(ob[j][1])))
        self.sched.append(sched)
        self.fires.append(fires)
        # heap writes, goroutines started in this step (their first local segment belongs to the spawner's step)
        spawn_rw = self.finish_step(results)
        for ptid, (r_, w_) in spawn_rw.items():
            if ptid in R:
                R[ptid].update(r_)
                W[ptid].update(w_)
        # ---- independence: conflicting transitions do not fire in the same step
        confl = set()
        if not deterministic:
            for i in range(len(tids)):
                for j in range(i + 1, len(tids)):
                    t1, t2 = tids[i], tids[j]
                    if self.conflict(R[t1], W[t1], R[t2], W[t2]):
                        confl.add((t1, t2))
                        confl.add((t2, t1))
                        m.add_constraint(z3.Or(z3.Not(fires[t1]), z3.Not(fires[t2])))
        # ---- Foata normal form + progress
        prev = self.prev
        legal = {}
        for tid in tids:
            en = OR(*en_t[tid]) if en_t[tid] else False
            if prev is None or not self.foata:
                dep = True
            else:
                deps = []
                for ptid, pf in prev["fires"].items():
                    if (ptid == tid or tid in prev["spawned"].get(ptid, ()) or (ptid, tid) in prev["confl"]
                            or self.conflict(prev["R"].get(ptid, set()), prev["W"].get(ptid, set()), R[tid], W[tid])):
                        deps.append(pf)
                dep = OR(*deps)
            legal[tid] = AND(en, dep)
        if not deterministic:
            for tid in tids:
                m.add_constraint(z3.Implies(fires[tid], B(legal[tid])))
            m.add_constraint(z3.Implies(B(OR(*legal.values())), z3.Or(*[fires[tid] for tid in tids])))
        self.can_fire_last = OR(*legal.values())
        self.last_fires = OR(*[f for f in fires.values()])
        stalled = not deterministic and not m.feasible(self.can_fire_last)
        if stalled and self.verbose:
            for tid in tids:
                print("      STALL t%d en=%s dep_feasible=%s prevfires=%s" % (tid, m.feasible(OR(*en_t[tid])) if en_t[tid] else False, m.feasible(legal[tid]), list(prev["fires"].keys()) if prev else None), flush=True)
        self.prev = dict(fires=fires, R=R, W=W, confl=confl, spawned=self.new_threads_last)
        self.npar = max(self.npar, len(tids))
        return not stalled

    def is_stutter(self, a, res, mark):
        if NO_STUTTER:
            return False
        r = self._is_stutter(a, res, mark)
        if self.verbose and not r[0] and len(res) == 1 and res[0].status == "parked" and res[0].loc() == a.loc():
            print("      not a stutter:", r[1], flush=True)
        return r[0]

    def _is_stutter(self, a, res, mark):
        m = self.m
        if len(res) != 1:
            return (False, 'L%d' % __import__('sys')._getframe().f_lineno)
        r = res[0]
        if r.status != "parked" or r.ack != a.ack or r.pending is not None:
            return (False, 'ack %r->%r pending %r' % (a.ack, r.ack, r.pending is not None))
        if r.ov:
            # writes that provably leave every object as it was (guarded updates whose guard is false on this path,
            # re-stored merged values) do not count: decided by the solver under the alternative's guard
            if r.nalloc != a.nalloc:
                return (False, 'allocates %r' % ([(k, v) for k, v in r.nalloc.items() if a.nalloc.get(k) != v][:3],))
            diff = False
            for obj, v in r.ov.items():
                cur = m.heap.get(obj, I._MISSING)
                if cur is I._MISSING:
                    return (False, 'writes new object %r' % (obj,))
                if same(cur, v):
                    continue
                try:
                    e = I.eq_vals(m, cur, v)
                except Exception:
                    return (False, 'writes %r (not comparable)' % (obj,))
                if e is True:
                    continue
                if e is False:
                    return (False, 'writes %r' % (obj,))
                diff = OR(diff, NOT(e))
            if diff is not False and m.feasible(AND(r.guard, diff)):
                return (False, 'writes %r' % (list(r.ov)[:4],))
        now = (len(m.log), len(m.violations), len(m.pending_spawns), len(m.reached), len(m.asserted), len(m.constraints) - m.stats.get("lemmas", 0))
        if mark != now:
            return (False, 'mark %r -> %r %s' % (mark, now, str(m.constraints[-1])[:300] if now[5] != mark[5] else ''))
        if r.loc() != a.loc() or (r.info is None) != (a.info is None):
            return (False, 'L%d' % __import__('sys')._getframe().f_lineno)
        if r.nalloc != a.nalloc or r.nspawn != a.nspawn:
            return (False, 'L%d' % __import__('sys')._getframe().f_lineno)
        self.prune(r)
        b = a.copy()
        self.prune(b)
        for fa, fb in zip(b.frames, r.frames):
            if set(fa.regs) != set(fb.regs):
                return (False, 'L%d' % __import__('sys')._getframe().f_lineno)
            for k in fa.regs:
                if not same(fa.regs[k], fb.regs[k]):
                    return (False, 'L%d' % __import__('sys')._getframe().f_lineno)
        return (True, '')

    def spawned_by(self, t1, t2):
        # thread t2 may have been created by t1's previous step -> dependent
        return t2 in self.new_threads_last.get(t1, ()) if hasattr(self, "new_threads_last") else False

    def finish_step(self, results):
        m = self.m
        # 1. heap writes
        self.apply(results)
        # 2. goroutines started in this step run their first (local) segment
        spawned_map = {}
        spawn_rw = {}
        rounds = 0
        while m.pending_spawns:
            rounds += 1
            ps, m.pending_spawns = m.pending_spawns, []
            newres = []
            for (th, parent_alt, name, args, fv, spawn_guard) in ps:
                spawned_map.setdefault(parent_alt.thread.tid, set()).add(th.tid)
                alt = Alt(th, spawn_guard)
                if os.environ.get("GOBMC_INVARIANT"):
                    print("  spawn", th.name, "step", self.m.step, "guard", "True" if parent_alt.guard is True else "sym", flush=True)
                self.start_thread(alt, name, args, fv)
                if self.spawn_yield:
                    # the start of a goroutine is a scheduling point of its own (it may be delayed arbitrarily)
                    alt.status = "parked"
                    alt.info = ("$goStart", [])
                    res = [alt]
                else:
                    res = m.run_alt(alt)
                newres += res
                # sequential composition of the first (local) segments of goroutines started in one step
                rds = [set(r.rd) for r in res]
                wrs = [set(r.ov.keys()) for r in res]
                self.apply(res)
                for r, rd_, wr_ in zip(res, rds, wrs):
                    r.rd = rd_
                    r.ov = dict.fromkeys(wr_)
                rw = spawn_rw.setdefault(self.root_spawner(parent_alt.thread.tid, spawned_map), (set(), set()))
                for r in res:
                    rw[0].update(r.rd)
                    rw[1].update(r.ov.keys())
                    if r.status == "parked":
                        for g_, c_ in self.recv_chans(r):
                            rw[1].add(("wait", c_.obj))
            for r in newres:
                r.ov = {}
            results = results + newres
        self.new_threads_last = spawned_map
        # 3. bookkeeping + merge
        for r in results:
            t = r.thread
            if r.status == "parked":
                t.alts.append(r)
            elif r.status in ("done", "panicked"):
                t.done = OR(t.done, r.guard)
        for t in m.threads:
            t.alts = [a for a in t.alts if a.guard is not False]
            if len(t.alts) > 1:
                t.alts = self.merge_alts(t.alts)
            # name the guards (one Boolean state variable per alternative and step) and state the
            # redundant but helpful lemma that a thread is at one location at a time
            named = []
            for i, a in enumerate(t.alts):
                g = a.guard
                if g is True:
                    continue
                if not (z3.is_const(g) and g.decl().kind() == z3.Z3_OP_UNINTERPRETED):
                    self.nguard += 1
                    b = z3.Bool("g!%d" % self.nguard)
                    m.add_constraint(b == g)
                    a.guard = b
                named.append(a.guard)
            for i in range(len(named)):
                for j in range(i + 1, len(named)):
                    key = (named[i].get_id(), named[j].get_id())
                    if key not in self.excl:
                        self.excl.add(key)
                        m.add_constraint(z3.Or(z3.Not(named[i]), z3.Not(named[j])))
        m.stats["alts"] = max(m.stats["alts"], sum(len(t.alts) for t in m.threads))
        return spawn_rw

    def root_spawner(self, tid, spawned_map):
        # a goroutine started by a goroutine started in this very step is attributed to the thread that fired
        for p, kids in spawned_map.items():
            if tid in kids:
                return self.root_spawner(p, spawned_map)
        return tid

    def start_thread(self, alt, name, args, fv):
        """first frame of a goroutine; intrinsic targets get a tiny wrapper frame"""
        m = self.m
        ov = m.overrides.get(name) if type(name) is str else None
        if ov is not None:
            name = ov
        if name in m.intrinsics or type(name) is not str:
            raise Unsupported("go statement on modelled function %r" % (name,))
        m.push_call(alt, name, args, fv)

    def apply(self, results):
        m = self.m
        heap = m.heap
        for r in results:
            g = r.guard
            for obj, v in r.ov.items():
                old = heap.get(obj, I._MISSING)
                if old is I._MISSING:
                    heap[obj] = v
                else:
                    heap[obj] = merge(g, v, old)
            r.ov = {}

    def prune(self, alt):
        for fr in alt.frames:
            live = self.live.live_at(fr.fn, fr.blk, fr.idx)
            for k in list(fr.regs.keys()):
                if k not in live and not k.startswith("$"):
                    del fr.regs[k]

    def merge_alts(self, alts):
        m = self.m
        groups = {}
        order = []
        for a in alts:
            self.prune(a)
            key = (a.loc(), a.info[0] if a.info else None, len(a.info[1]) if a.info else 0, a.opt,
                   frozenset(kv for kv in a.nalloc.items() if kv[0][0] == "go"))
            if key not in groups:
                groups[key] = []
                order.append(key)
            groups[key].append(a)
        out = []
        for key in order:
            g = groups[key]
            if len(g) == 1:
                out.append(g[0])
                continue
            m.stats["merges"] += len(g) - 1
            base = g[-1]
            base.foot = None
            base.en_last = None
            for a in reversed(g[:-1]):
                for fb, fa in zip(base.frames, a.frames):
                    for rk in set(fb.regs) | set(fa.regs):
                        va = fa.regs.get(rk, I._MISSING)
                        vb = fb.regs.get(rk, I._MISSING)
                        if va is I._MISSING:
                            continue
                        if vb is I._MISSING:
                            fb.regs[rk] = va
                        else:
                            fb.regs[rk] = merge(a.guard, va, vb)
                    # pending deferred calls: same shape (guaranteed by loc), merge their arguments
                    nd = []
                    for da, db in zip(fa.defers, fb.defers):
                        nd.append(self.merge_defer(a.guard, da, db))
                    fb.defers = nd
                if base.info:
                    base.info = (base.info[0], [merge(a.guard, x, y) for x, y in zip(a.info[1], base.info[1])])
                base.guard = OR(a.guard, base.guard)
                for sk, sv in a.nalloc.items():
                    if base.nalloc.get(sk, 0) < sv:
                        base.nalloc[sk] = sv
                base.nspawn = max(base.nspawn, a.nspawn)
            out.append(base)
        return out

    def merge_defer(self, g, da, db):
        if da[0] != db[0] or da[1] != db[1]:
            raise Unsupported("merging different deferred calls")
        if da[0] == "builtin":
            return ("builtin", da[1], [merge(g, x, y) for x, y in zip(da[2], db[2])], da[3])
        return ("fn", da[1], [merge(g, x, y) for x, y in zip(da[2], db[2])], tuple(merge(g, x, y) for x, y in zip(da[3], db[3])))

    # ------------------------------------------------------------------ whole run
    def execute(self):
        m = self.m
        self.start()
        k = 0
        while k < self.K:
            if self.verbose:
                print("  step %d: threads=%d alts=%d constraints=%d t=%.1fs checks=%d solver=%.1fs instrs=%d hits=%d" % (
                    k, len(m.threads), sum(len(t.alts) for t in m.threads), len(m.constraints), time.time() - self.t0,
                    m.stats["solver_checks"], m.stats["solver_s"], m.stats["instrs"], m.stats.get("model_hits", 0)), flush=True)
            if self.time_budget_s and time.time() - self.t0 > self.time_budget_s:
                raise BoundExceeded("time budget of %ds exhausted at step %d" % (self.time_budget_s, k))
            r_ = self.step(k)
            if os.environ.get("GOBMC_SATCHECK"):
                ss = z3.Solver(); ss.add(*m.constraints)
                if ss.check() != z3.sat:
                    print("  !! constraints became unsatisfiable at step", k, [(tid, d) for (tid, d, g, o) in self.sched[-1]] if self.sched else None, flush=True)
                    for (kk, tid, idx, bl) in getattr(self, "max_dbg", []):
                        if kk != k:
                            continue
                        s2 = z3.Solver(); s2.add(*[c for i, c in enumerate(m.constraints) if i != idx])
                        print("     without maximality of t%d (blockers %s): %s" % (tid, bl, s2.check()), flush=True)
                    lo, hi = 0, len(m.constraints)
                    while lo < hi:
                        mid = (lo + hi) // 2
                        sx = z3.Solver(); sx.add(*m.constraints[:mid + 1])
                        if sx.check() == z3.sat:
                            lo = mid + 1
                        else:
                            hi = mid
                    print("     first constraint that makes the system unsat: #%d of %d: %s" % (lo, len(m.constraints), m.constraints[lo].sexpr()[:600]), flush=True)
                    idxs = [idx for (kk, tid, idx, bl) in getattr(self, "max_dbg", []) if kk == k]
                    s3 = z3.Solver(); s3.add(*[c for i, c in enumerate(m.constraints) if i not in idxs])
                    print("     without all maximality constraints of this step:", s3.check(), flush=True)
                    for (kk, tid, idx, bl) in getattr(self, "max_dbg", []):
                        if kk == k:
                            s4 = z3.Solver(); s4.add(*[c for i, c in enumerate(m.constraints) if i not in idxs]); s4.add(self.fires[-1][tid])
                            print("     can t%d fire at all: %s" % (tid, s4.check()), flush=True)
                    s5 = z3.Solver(); s5.add(*[c for i, c in enumerate(m.constraints) if i not in idxs]); s5.add(*self.fires[-1].values())
                    print("     can all fire together:", s5.check(), flush=True)
                    print("     fires:", self.fires[-1], "tids R/W:", {t: (sorted(map(str, self.prev['R'][t]))[:6], sorted(map(str, self.prev['W'][t]))[:6]) for t in self.prev['R']}, flush=True)
                    break
            if r_ == "retry":
                r_ = self.step(k, retry=True)
            if os.environ.get("GOBMC_INVARIANT"):
                # debug: a goroutine that was started and has not finished is at some location
                for t in m.threads[1:]:
                    lost = AND(t.spawn_guard, NOT(t.done), NOT(OR(*[a.guard for a in t.alts])))
                    if lost is not False:
                        ss = z3.Solver(); ss.add(*m.constraints)
                        if ss.check(B(lost)) == z3.sat:
                            if not getattr(self, "_lost_shown", False):
                                self._lost_shown = True
                                mdl = ss.model()
                                for e in self.schedule_of(mdl):
                                    if not e.get("idle"):
                                        print("     ", e["step"], e["thread"], e["op"][:90], flush=True)
                            print("  !! thread %s lost an alternative at step %d" % (t.name, k), "alts:", [(self.describe(a, a.opt)[-40:], a.status) for a in t.alts], "done:", t.done is not False, flush=True)
            if not r_:
                self.quiescent_at = k
                break
            k += 1
        self.steps_done = k
        # anything still enabled after the last step?  (completeness threshold)
        # completeness threshold: can anything still fire at the last unrolled step?
        if self.quiescent_at is None:
            self.any_enabled_final = self.last_fires
        else:
            self.any_enabled_final = False
        return self

    def pending_quiesce(self):
        """guard under which some thread is still parked at verifQuiesce when the run ended: must be infeasible"""
        gs = []
        for t in self.m.threads:
            for a in t.alts:
                if a.info is not None and type(a.info[0]) is str and a.info[0].rsplit(".", 1)[-1] == "verifQuiesce":
                    gs.append(a.guard)
        if not gs:
            return False
        # ... although nothing at all is enabled any more (runs that the solver merely stopped half-way do not count)
        return AND(OR(*gs), NOT(self.enabled_now()))

    def enabled_now(self):
        m = self.m
        parked = [(t, a) for t in m.threads for a in t.alts]
        rwait = self.receivers_waiting(parked)
        conds = []
        for t, a in parked:
            def waiters(ch, tid=t.tid):
                return OR(*[g for (tt, g, c) in rwait if tt != tid and c == ch])
            waiters.tids = lambda ch: set()
            opts = self.options(a, waiters)
            if opts == "quiesce":
                continue
            for cond, opt, objs in opts:
                conds.append(AND(a.guard, cond))
        return OR(*conds)

    # ------------------------------------------------------------------ queries
    def solve(self, *extra, timeout_ms=120000):
        s = z3.Solver()
        s.add(*self.m.constraints)
        s.set("timeout", timeout_ms)
        t0 = time.time()
        r = s.check(*[B(e) for e in extra])
        dt = time.time() - t0
        self.m.stats["solver_checks"] += 1
        self.m.stats["solver_s"] += dt
        if XCHECK and r != z3.unknown:
            self.xcheck(s, [B(e) for e in extra], r)
        return r, (s.model() if r == z3.sat else None), dt

    def xcheck(self, s, extra, verdict):
        # the same query (SMT-LIB2 text produced by z3's printer from the asserted formulas) decided by two other solver
        # builds: the system z3 4.8.12 binary and cvc5; agreement / disagreement / no answer is counted in the evidence
        import subprocess, tempfile
        s2 = z3.Solver()
        s2.add(*s.assertions())
        s2.add(*extra)
        txt = s2.to_smt2()
        st = self.m.stats.setdefault("xcheck", {})
        with tempfile.NamedTemporaryFile("w", suffix=".smt2", delete=False) as fh:
            fh.write(txt)
            path = fh.name
        try:
            for name, cmd in (("z3-4.8.12", ["/usr/bin/z3", "-T:%d" % XCHECK_T, path]),
                              ("cvc5", ["cvc5", "--tlimit=%d" % (XCHECK_T * 1000), path])):
                try:
                    out = subprocess.run(cmd, capture_output=True, text=True, timeout=XCHECK_T + 10).stdout
                except Exception:
                    out = "timeout"
                first = out.strip().split("\n")[0] if out.strip() else "none"
                if "(error" in out or first not in ("sat", "unsat"):
                    k = "no_answer"
                elif first == str(verdict):
                    k = "agree"
                else:
                    k = "DISAGREE"
                    st.setdefault("disagreements", []).append(dict(solver=name, ours=str(verdict), theirs=first, smt2=path))
                st[name + "." + k] = st.get(name + "." + k, 0) + 1
        finally:
            if not st.get("disagreements"):
                os.remove(path)

    def schedule_of(self, model):
        out = []
        for k, sched in enumerate(self.sched):
            hits = []
            seen = set()
            for tid, descr, g, opt in sched:
                if tid not in seen and z3.is_true(model.eval(B(g), model_completion=True)):
                    seen.add(tid)
                    hits.append((tid, descr))
            if not hits:
                out.append({"step": k, "idle": True})
            for tid, descr in hits:
                out.append({"step": k, "thread": self.m.threads[tid].name, "tid": tid, "op": descr})
        return out

    def log_of(self, model):
        out = []
        for (step, seq, g, tid, tag, args) in self.m.log:
            if z3.is_true(model.eval(B(g), model_completion=True)):
                out.append({"step": step, "thread": self.m.threads[tid].name, "tag": tag, "args": [self.show(a, model) for a in args]})
        return out

    def show(self, v, model):
        if type(v) is Union:
            for g, x in v.alts:
                if z3.is_true(model.eval(B(g), model_completion=True)):
                    return self.show(x, model)
            return "?"
        if type(v) is Iface:
            return self.show(v.v, model)
        if is_z3(v):
            r = model.eval(v, model_completion=True)
            if z3.is_bv(r):
                x = r.as_long()
                if x >= 1 << (r.size() - 1):
                    x -= 1 << r.size()
                return x
            if z3.is_true(r):
                return True
            if z3.is_false(r):
                return False
            return str(r)
        if type(v) is tuple:
            return [self.show(x, model) for x in v]
        if isinstance(v, (int, str, bool, float)) or v is None:
            return v
        return repr(v)

    def nondets_of(self, model):
        out = {}
        for name, v in self.m.nondets.items():
            r = model.eval(v, model_completion=True)
            if z3.is_bv(r):
                x = r.as_long()
                if x >= 1 << (r.size() - 1):
                    x -= 1 << r.size()
                out[name] = x
            else:
                out[name] = bool(z3.is_true(r))
        return out
