package bpmn

// C07: cancelling the context stops the instance.  A token waits at a task whose request is pending; the context is
// cancelled at an arbitrary point (the canceller is a goroutine of its own, so the cancellation point ranges over the
// whole life of the scenario).
func VerifC07_PendingTask() {
	b := verifNewB("p")
	b.flow("in", "s", "a", false)
	b.task("a", []string{"in"}, []string{"n"})
	b.flow("n", "a", "nx", false)
	b.task("nx", []string{"n"}, nil)
	inst := verifNewInst(b)
	if inst.proc == nil {
		return
	}
	var nx int64
	inst.sinkAt("nx", &nx)
	inst.tokenAt("a", "in")
	go func() { inst.cancel() }()
	done := make(chan struct{})
	go func() {
		inst.proc.flowWaitGroup.Wait()
		close(done)
	}()
	verifQuiesce()
	verifReach("quiescent")
	select {
	case <-done:
	default:
		verifAssert(false, "after cancellation every token's goroutine exits")
	}
	verifAssert(verifGet(&nx) == 0, "a cancelled instance does not move on")
	verifAssert(inst.count("a") <= 1, "no task request is repeated because of the cancellation")
}
