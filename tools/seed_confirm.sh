#!/bin/bash
# seed_confirm.sh <PROP> <mk> <demo-dest-dir-relative-to-repo-root> <go test args...>
# Confirms a seeded change in a scratch worktree of /repo's HEAD: (1) the change compiles and the whole existing suite
# passes, (2) the demonstration passes without the change, (3) fails with it.  On success stores it under /verif/seeded/<PROP>-<mk>/.
set -u
P=$1; K=$2; DEST=$3; shift 3
export GOPROXY=off GOSUMDB=off GOTOOLCHAIN=local GOFLAGS=
SRC=${MUT_ROOT:-/tmp/mut}/$P/$K
WT=$(mktemp -d /tmp/confirm-XXXX)
git -C /repo worktree add --detach $WT HEAD >/dev/null 2>&1 || { echo "worktree failed"; exit 2; }
trap 'git -C /repo worktree remove --force $WT >/dev/null 2>&1; rm -rf $WT' EXIT
PATCH=$SRC/patch.diff; [ -f $SRC/patch.rebased.diff ] && PATCH=$SRC/patch.rebased.diff
cd $WT
cp $SRC/demo/*.go $WT/$DEST/ 2>/dev/null
run_demo() { (cd $WT/$DEST && timeout 600 go test -vet=off -count=1 "$@" . 2>&1 | tail -5); }
echo "== demo WITHOUT change"; OUT0=$(run_demo "$@"); echo "$OUT0" | tail -3
git apply $PATCH || { echo "PATCH DOES NOT APPLY"; exit 3; }
echo "== demo WITH change"; OUT1=$(run_demo "$@"); echo "$OUT1" | tail -3
rm -f $WT/$DEST/*demo*_test.go; for f in $SRC/demo/*.go; do rm -f $WT/$DEST/$(basename $f); done
echo "== suite WITH change"
S1=$(cd $WT && go test -vet=off -count=1 ./... 2>&1 | grep -v "^ok\|no test files" ); S2=$(cd $WT/schema && go test -vet=off -count=1 ./... 2>&1 | grep -v "^ok\|no test files")
if [ -n "$S1$S2" ]; then echo "first suite run had failures, re-running once (known flaky tests)"; echo "$S1" | grep -- "--- FAIL" ; S1=$(cd $WT && go test -vet=off -count=1 ./... 2>&1 | grep -v "^ok\|no test files" ); fi
echo "suite residue: [$S1$S2]"
ok0=$(echo "$OUT0" | grep -c "^ok"); fail1=$(echo "$OUT1" | grep -c "FAIL")
if [ "$ok0" -ge 1 ] && [ "$fail1" -ge 1 ] && [ -z "$S1$S2" ]; then
  D=/verif/seeded/$P-$K; mkdir -p $D/demo; cp $PATCH $D/patch.diff; cp $SRC/demo/* $D/demo/; cp $SRC/README.md $D/README.md 2>/dev/null
  echo "CONFIRMED -> $D"
else echo "NOT CONFIRMED (ok0=$ok0 fail1=$fail1)"; fi
