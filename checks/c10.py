from common import STD
PROPERTY = "C10"
EXPLANATION = ("Real newHarness (boundary listener flows, interrupting action transformer with its cancellation Once), harness.run / ConsumeEvent, "
               "genericTask.run / Cancel, the boundary catchEvent and the flow loop for the host token and the boundary listener, in an instance built by "
               "NewProcess; the host task is answered and the event delivered in the stated order with quiescence in between; sinks on the normal and "
               "exception paths; the scheduler is symbolic within each phase.")
ASSUMPTIONS = ["tracer replaced by the synchronous stub (contract established by C09)",
               "one boundary event on a task host; sub-process hosts, two boundary events, repeated events and races between answer and event are outside the registered bounds",
               "the driver waits for quiescence between delivering the event and answering the task",
               "reduced scenarios: the host activity is a stand-in that answers at once (the harness around it, its boundary listeners and the flows are the real code)"]


def sc(entry, name, bounds, eo, tiers=("quick", "thorough"), K=120):
    return dict(name=name, entry=entry, K=K, reach=["quiescent"], overrides=STD, tiers=tiers, expect_obligations=eo, bounds=bounds)


SCENARIOS = [
    sc("VerifC10_NonInterrupting_EventThenAnswer", "C10 non-interrupting: event while waiting, then answer", "non-interrupting boundary event; event, then answer",
       ["a matching event while the activity waits makes the exception flow continue exactly once",
        "after a non-interrupting boundary event the normal flow still continues when the task is answered"]),
    sc("VerifC10_Interrupting_EventThenAnswer", "C10 interrupting: event while waiting, then answer", "interrupting boundary event; event, then answer",
       ["a matching event while the activity waits makes the exception flow continue exactly once",
        "after an interrupting boundary event the normal flow never continues, even if the task is answered afterwards"]),
    dict(sc("VerifC10_InstantAnswerThenEvent", "C10 activity completes at once, then event (stand-in activity)", "host activity is a stand-in that answers at once; then a matching event",
            ["once the activity has completed its boundary events no longer react"]), native=False),
    dict(sc("VerifC10_InstantErrAnswerThenEvent", "C10 activity fails at once, then event (stand-in activity)", "host activity is a stand-in that answers at once with an error that is not retried; then a matching event",
            ["once the activity has completed its boundary events no longer react"]), native=False),
    sc("VerifC10_AnswerThenEvent", "C10 answer, then event", "task answered successfully, then a matching event",
       ["once the activity has completed its boundary events no longer react"], tiers=("thorough",), K=160),
    sc("VerifC10_ErrAnswerThenEvent", "C10 error answer, then event", "task answered with an error that is not retried, then a matching event",
       ["once the activity has completed its boundary events no longer react"], tiers=("thorough",), K=160),
]
