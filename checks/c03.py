PROPERTY = "C03"
EXPLANATION = "distributeFlows executed symbolically for all numbers of parked tokens and outgoing flows in the bound."
ASSUMPTIONS = []
SCENARIOS = [
    dict(name="C03.a distributeFlows", entry="VerifC03a_Distribute", K=40, reach=["built", "checked"], require_native=True,
         bounds="A=len(awaiting) in 0..4, F=len(flows) in 0..4 (symbolic)",
         expect_obligations=["no outgoing flow lost", "flows handed out in order, no duplicates"]),
]
