package bpmn

import (
	"github.com/olive-io/bpmn/schema"
	"github.com/olive-io/bpmn/v2/pkg/event"
	"github.com/olive-io/bpmn/v2/pkg/id"
	"github.com/olive-io/bpmn/v2/pkg/tracing"
)

// C17 (reduced claim): lock / atomic discipline of engine state that several goroutines share.  The code is executed by
// the interpreter, which checks at every access of a registered cell that its guarding lock is held, resp. that a cell
// written with sync/atomic is never read or written plainly.

// the inclusive join's picture of live flows: written by the tracker goroutine, read by the gateway goroutine
func VerifC17_TrackerLock() {
	b := verifNewB("p")
	b.inclusive("join", nil, nil, "")
	b.task("x", nil, nil)
	defs := b.defs()
	p := &defs.ProcessField[0]
	tracker := &flowTracker{flows: make(map[id.Id]schema.Id), element: &p.InclusiveGatewayField[0], activityCh: make(chan struct{}, 1)}
	verifGuardedBy(tracker.flows, &tracker.lock, "flowTracker.flows")
	verifReach("registered")
	fid := id.Id(&verifId{n: 1})
	src := schema.FlowNodeInterface(&p.TaskField[0])
	// what flowTracker.run does per trace: handleTrace takes the lock, run releases it once the traces are drained
	var tr tracing.ITrace = FlowTrace{Source: src, Flows: []Snapshot{{flowId: fid, sequenceFlow: &SequenceFlow{SequenceFlow: &schema.SequenceFlow{}, process: p}}}}
	locked, _, _ := tracker.handleTrace(false, tr, false, true)
	if locked {
		tracker.lock.Unlock()
	}
	_ = tracker.activeFlowsInCohort(fid)
	locked, _, _ = tracker.handleTrace(false, TerminationTrace{FlowId: fid, Source: src}, false, true)
	if locked {
		tracker.lock.Unlock()
	}
	_ = tracker.activeFlowsInCohort(fid)
	verifReach("done")
}

// the activity harness' `active` flag (atomic), the process' and the harness' event consumer lists (locks): a token runs
// through a task while events are delivered
func VerifC17_EventDelivery() {
	b := verifNewB("p")
	b.flow("in", "s", "a", false)
	b.task("a", []string{"in"}, []string{"n"})
	b.flow("n", "a", "nx", false)
	b.task("nx", []string{"n"}, nil)
	inst := verifNewInst(b)
	if inst.proc == nil {
		return
	}
	var nx int64
	inst.sinkAt("nx", &nx)
	h := inst.nodeAt("a").(*harness)
	verifAtomicOnly(&h.active, "harness.active")
	verifGuardedBy(&h.eventConsumers, &h.eventConsumersLock, "harness.eventConsumers")
	verifGuardedBy(&inst.proc.eventConsumers, &inst.proc.eventConsumersLock, "Process.eventConsumers")
	verifReach("registered")
	// the task itself is a stand-in that answers at once: the harness around it (the code under examination) is real
	h.activity = &verifInstantActivity{elem: inst.elem("a"), outs: allSequenceFlows(&h.outgoing)}
	inst.proc.ConsumeEvent(event.NewSignalEvent("noise"))
	inst.tokenAt("a", "in")
	verifQuiesce()
	inst.proc.ConsumeEvent(event.NewSignalEvent("noise"))
	_ = inst.proc.RegisterEventConsumer(event.VoidConsumer{})
	verifReach("done")
}
