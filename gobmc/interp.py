"""Symbolic interpreter for go/ssa (as exported by ssaexport) with guarded state merging.

One engine, two uses:
  * sequential kernels (one thread; `verifMerge()` joins the paths of a history loop),
  * concurrent protocols: goroutines are threads, every channel / sync / atomic operation is a
    scheduling point, the scheduler's choice at every step is an SMT variable (driver.py).
All state is merged: the heap is one store whose cells hold z3 terms or guarded unions."""
import itertools
import z3
from vals import *
from ir import ExportError


SOLVER_LOGIC = __import__("os").environ.get("GOBMC_LOGIC", "")


def _mk_solver():
    return z3.SolverFor(SOLVER_LOGIC) if SOLVER_LOGIC else z3.SimpleSolver()


LEMMAS = not bool(__import__('os').environ.get('GOBMC_NOLEMMAS'))
RESET_EVERY = int(__import__('os').environ.get('GOBMC_RESET_EVERY', '300'))


class Unsupported(Exception):
    pass


class BoundExceeded(Exception):
    pass


class Frame:
    __slots__ = ("fn", "blk", "idx", "prev", "regs", "defers", "on_return", "panicking", "recovered", "tag")

    def __init__(self, fn):
        self.fn = fn
        self.blk = 0
        self.idx = 0
        self.prev = -1
        self.regs = {}
        self.defers = []
        self.on_return = None
        self.panicking = False
        self.recovered = False
        self.tag = None

    def copy(self):
        f = Frame(self.fn)
        f.blk, f.idx, f.prev = self.blk, self.idx, self.prev
        f.regs = dict(self.regs)
        f.defers = list(self.defers)
        f.on_return = self.on_return
        f.panicking = self.panicking
        f.recovered = self.recovered
        f.tag = self.tag
        return f

    def loc(self):
        return (self.fn.name, self.blk, self.idx, len(self.defers), self.on_return, self.panicking, self.recovered)


class Alt:
    """one guarded alternative of a thread"""
    __slots__ = ("guard", "frames", "thread", "nalloc", "nspawn", "ov", "status", "panic", "resume", "opt", "ninstr", "info", "rd", "ack", "pending", "dead", "foot", "en_last", "spin", "seen_step")

    def __init__(self, thread, guard):
        self.thread = thread
        self.guard = guard
        self.frames = []
        self.nalloc = {}
        self.nspawn = 0
        self.ov = {}
        self.status = "run"
        self.panic = None
        self.resume = False
        self.opt = None
        self.ninstr = 0
        self.info = None
        self.rd = set()
        self.ack = None
        self.pending = None
        self.dead = None
        self.foot = None      # (reads, writes) of the last examination as a scheduling candidate
        self.en_last = None   # its enabledness formula at that time
        self.seen_step = None
        self.spin = False     # condition under which it can only repeat a state-preserving transition

    def copy(self):
        a = Alt(self.thread, self.guard)
        a.frames = [f.copy() for f in self.frames]
        a.nalloc, a.nspawn = dict(self.nalloc), self.nspawn
        a.ov = dict(self.ov)
        a.status = self.status
        a.panic = self.panic
        a.resume = self.resume
        a.opt = self.opt
        a.ninstr = self.ninstr
        a.info = self.info
        a.rd = set(self.rd)
        a.ack = self.ack
        a.pending = self.pending
        return a

    def loc(self):
        return (tuple(f.loc() for f in self.frames), self.ack)


class Thread:
    def __init__(self, tid, name):
        self.tid = tid
        self.name = name
        self.alts = []      # parked alternatives
        self.done = False   # guard under which the thread has finished (formula)
        self.spawn_guard = False


SYNC_ZERO = {
    "sync.Mutex": 0,
    "sync.RWMutex": (0, 0),
    "sync.WaitGroup": 0,
    "sync.Once": 0,
    "sync/atomic.Bool": False,
    "sync/atomic.Int32": 0,
    "sync/atomic.Int64": 0,
    "sync/atomic.Uint32": 0,
    "sync/atomic.Uint64": 0,
    "time.Time": 0,
}

HANDOFF = ("g", "$handoff")


class Machine:
    def __init__(self, prog, max_instr=400000, check_timeout_ms=20000):
        self.prog = prog
        self.heap = {}
        self.threads = []
        self.thread_by_key = {}
        self.check_timeout_ms = check_timeout_ms
        self.solver = _mk_solver()
        self.solver.set("timeout", check_timeout_ms)
        self.nchecks_since_reset = 0
        self.fresh_checks = False
        self.nslow = 0
        self.constraints = []
        self.violations = []   # (kind, formula, msg, pos, step)
        self.log = []          # (step, seq, guard, tid, tag, args)
        self.reached = {}      # label -> formula
        self.asserted = set()  # messages of all assertions evaluated (also those that were concretely true)
        self.nondets = {}      # name -> z3 const
        self.nd_count = {}
        self.step = 0
        self.overrides = {}    # go function name -> go function name / python callable
        self.intrinsics = {}
        self.visible = set()
        self.pending_spawns = []
        self.max_instr = max_instr
        self.zero_cache = {}
        self.feas_cache = {}
        self.stats = dict(instrs=0, forks=0, solver_checks=0, solver_s=0.0, macro_steps=0, merges=0, alts=0)
        self.inconclusive = []
        self.init_done = set()
        self.init_allowed = set()
        self.spawn_limits = {}
        self.cuts = set()
        self.skip_init = True
        self.map_perm = False
        self.live_cache = {}
        self.on_return_handlers = {}
        self.quiet = {}   # visible intrinsic -> predicate(m, alt, args): may run without a scheduling point
        self.models = []
        self.deadline = None
        self.sequential = False
        self.guarded_cells = []   # (obj, path prefix, lock Ptr, name): plain accesses need the lock held
        self.guarded_maps = {}    # map object -> (lock Ptr, name)
        self.atomic_only = {}     # (obj, path) -> name: only sync/atomic accesses allowed
        self.in_atomic = False
        self.lit_cache = {}
        self.nlit = 0
        self.lazy_split = bool(__import__("os").environ.get("GOBMC_LAZY"))
        self.debug_slow = bool(__import__("os").environ.get("GOBMC_SLOW"))
        import intrinsics
        intrinsics.install(self)

    # ------------------------------------------------------------------ types
    def T(self, key):
        return self.prog.type(key)

    def under(self, key):
        return self.T(key)

    def zero(self, key):
        z = self.zero_cache.get(key)
        if z is not None or key in self.zero_cache:
            return z
        if key in SYNC_ZERO:
            z = SYNC_ZERO[key]
        else:
            t = self.T(key)
            k = t["kind"]
            if k == "basic":
                c = t["cls"]
                z = {"bool": False, "int": 0, "float": 0.0, "string": ""}.get(c)
            elif k == "struct":
                z = tuple(self.zero(f["t"]) for f in t["fields"])
            elif k == "array":
                z = tuple(self.zero(t["elem"]) for _ in range(t["len"]))
            elif k == "slice":
                z = NILSLICE
            elif k == "tuple":
                z = tuple(self.zero(e) for e in t["elems"])
            else:
                z = None
        self.zero_cache[key] = z
        return z

    def intinfo(self, key):
        t = self.T(key)
        if t["kind"] == "basic" and t["cls"] == "int":
            return t["bits"], t["signed"]
        return None

    # ------------------------------------------------------------------ ints
    @staticmethod
    def wrap(v, bits, signed):
        v &= (1 << bits) - 1
        if signed and v >> (bits - 1):
            v -= 1 << bits
        return v

    def bv(self, v, bits):
        if is_int_conc(v):
            return z3.BitVecVal(v, bits)
        if type(v) is Union:
            r = None
            for g, x in reversed(v.alts):
                x = self.bv(x, bits)
                r = x if r is None else z3.If(B(g), x, r)
            return r
        if is_bool_conc(v):
            raise Unsupported("bool as int")
        if z3.is_bv(v):
            if v.size() == bits:
                return v
            raise Unsupported("bit-vector width mismatch %d vs %d" % (v.size(), bits))
        raise Unsupported("bv of %r" % (v,))

    def bool_of(self, v):
        if type(v) is Union:
            r = False
            for g, x in v.alts:
                r = OR(r, AND(g, self.bool_of(x)))
            return r
        return v

    # ------------------------------------------------------------------ solver helpers
    def reset_solver(self):
        """z3's incremental state degrades over hundreds of check-sat-assuming calls (measured: 50x);
        a fresh solver with the same assertions is rebuilt at every scheduling step"""
        self.solver = _mk_solver()
        self.solver.set("timeout", self.check_timeout_ms)
        if self.constraints:
            self.solver.add(*self.constraints)
        self.nchecks_since_reset = 0
        self.lit_cache = {}

    def lits_of(self, f):
        """assumption literals for formula f: its top-level conjuncts, each non-trivial one named by a Boolean
        constant whose definition stays asserted in the incremental solver (so its bit-blasted form and the
        clauses learned about it are reused by later checks instead of being rebuilt per query)"""
        cache = self.lit_cache
        k = f.get_id()
        ent = cache.get(k)
        if ent is not None:
            return ent[0]
        if z3.is_and(f):
            out = []
            for ch in f.children():
                out.extend(self.lits_of(ch))
            out = tuple(out)
        elif z3.is_const(f) and f.decl().kind() == z3.Z3_OP_UNINTERPRETED:
            out = (f,)
        elif z3.is_not(f) and z3.is_const(f.arg(0)) and f.arg(0).decl().kind() == z3.Z3_OP_UNINTERPRETED:
            out = (f,)
        else:
            self.nlit += 1
            p = z3.Bool("p!%d" % self.nlit)
            self.solver.add(p == f)
            out = (p,)
        cache[k] = (out, f)
        return out

    def add_constraint(self, c):
        c = _n(c)
        if c is True:
            return
        self.constraints.append(B(c))
        self.solver.add(B(c))
        for k in [k for k, v in self.feas_cache.items() if v[0]]:
            del self.feas_cache[k]   # infeasible stays infeasible under more constraints

    def feasible(self, *conds):
        f = AND(*conds)
        if f is True:
            return True
        if f is False:
            return False
        key = f.get_id()
        r = self.feas_cache.get(key)
        if r is not None:
            return r[0]
        import time, sys as _sys
        t0 = time.time()
        if self.deadline is not None and t0 > self.deadline:
            raise BoundExceeded("time budget exhausted (step %d)" % self.step)
        if self.debug_slow:
            fr_ = _sys._getframe(1)
            key_ = "%s:%d" % (fr_.f_code.co_name, fr_.f_lineno)
            self.stats.setdefault("by_site", {})
            self.stats["by_site"][key_] = self.stats["by_site"].get(key_, 0) + 1
        # counterexample cache: a recent model of all constraints that also satisfies f
        for ent in self.models:
            mdl, n = ent
            ok = True
            for c in self.constraints[n:]:
                if not z3.is_true(mdl.eval(c, model_completion=True)):
                    ok = False
                    break
            if not ok:
                continue
            ent[1] = len(self.constraints)
            if z3.is_true(mdl.eval(f, model_completion=True)):
                self.stats["model_hits"] = self.stats.get("model_hits", 0) + 1
                self.feas_cache[key] = (True, f)
                self.stats["solver_s"] += time.time() - t0
                return True
        t1 = time.time()
        # adaptive: incremental solver with a short budget first; when it does not answer its state has
        # degraded (measured) - rebuild it from the assertions and ask again with the full budget
        self.nchecks_since_reset += 1
        if self.nchecks_since_reset > RESET_EVERY:
            self.reset_solver()
        self.solver.set("timeout", 250)
        tl = time.time()
        lits = self.lits_of(f)
        self.stats["t_lits"] = self.stats.get("t_lits", 0) + (time.time() - tl)
        res = self.solver.check(*lits)
        if res == z3.unknown:
            self.stats["fresh_fallbacks"] = self.stats.get("fresh_fallbacks", 0) + 1
            t2 = time.time()
            self.reset_solver()
            res = self.solver.check(*self.lits_of(f))
            self.stats["fallback_s"] = self.stats.get("fallback_s", 0) + (time.time() - t2) + 0.25
        self.solver_last = self.solver
        kk = "t_" + str(res)
        self.stats[kk] = self.stats.get(kk, 0) + (time.time() - t1)
        self.stats["n_" + str(res)] = self.stats.get("n_" + str(res), 0) + 1
        self.stats["solver_checks"] += 1
        r = (res != z3.unsat)
        if res == z3.unsat and LEMMAS:
            # an infeasible condition is an implied lemma: keeping it asserted lets later, similar queries be refuted by propagation
            lem = z3.Not(f)
            self.constraints.append(lem)
            self.solver.add(lem)
            self.stats["lemmas"] = self.stats.get("lemmas", 0) + 1
        if res == z3.sat:
            self.models.insert(0, [self.solver_last.model(), len(self.constraints)])
            del self.models[12:]
        self.stats["solver_s"] += time.time() - t0
        self.feas_cache[key] = (r, f)
        return r

    # ------------------------------------------------------------------ heap
    def hget(self, alt, obj):
        v = alt.ov.get(obj, _MISSING)
        if v is _MISSING:
            alt.rd.add(obj)
            v = self.heap.get(obj, _MISSING)
            if v is _MISSING:
                if obj[0] == "g":
                    v = self.init_global(obj)
                else:
                    raise Unsupported("dangling object %r" % (obj,))
        return v

    def hset(self, alt, obj, v):
        if obj not in alt.ov:
            # a write that leaves the object as it is (e.g. a receive from a closed channel) is recorded as a read only:
            # it still conflicts with concurrent writers, but lets the driver recognise a spinning macro-step
            cur = self.heap.get(obj, _MISSING)
            if cur is not _MISSING and same(cur, v):
                alt.rd.add(obj)
                return
        alt.ov[obj] = v

    def init_global(self, obj):
        name = obj[1]
        gt = self.global_types.get(name) if hasattr(self, "global_types") else None
        if gt is None:
            pkg = name.rsplit(".", 1)[0]
            if not hasattr(self, "global_types"):
                self.global_types = {}
            for g in self.prog.globals(pkg):
                self.global_types[g["n"]] = g["t"]
            gt = self.global_types.get(name)
            if gt is None:
                raise Unsupported("unknown global " + name)
        et = self.T(gt)["elem"]
        v = self.zero(et)
        self.heap[obj] = v
        return v

    def new_obj(self, alt, val, disc=None):
        """object ids are (thread, allocation site, n-th allocation at that site on this path[, size]):
        alternatives that are merged later can only alias objects of the same site, hence the same shape"""
        fr = alt.frames[-1] if alt.frames else None
        site = (fr.fn.name, fr.blk, fr.idx) if fr is not None else ("?", 0, 0)
        n = alt.nalloc.get(site, 0) + 1
        alt.nalloc[site] = n
        obj = (alt.thread.tid, site, n, disc)
        alt.ov[obj] = val
        return obj

    def lock_held(self, alt, lockp):
        st = nav(self.hget(alt, lockp.obj), lockp.path)
        if type(st) is tuple:      # RWMutex (writer, readers)
            w, r = st
            return OR(self.bool_of(lift1(w, lambda x: x != 0)), self.bool_of(lift1(r, lambda x: x > 0)))
        return self.bool_of(lift1(st, lambda x: x != 0))

    def discipline(self, alt, p, pos, write):
        """lock / atomic discipline of registered shared cells (C17, reduced claim)"""
        if self.atomic_only and not self.in_atomic:
            nm = self.atomic_only.get((p.obj, p.path))
            if nm is not None:
                self.violations.append(("assert", alt.guard, "%s is accessed with sync/atomic operations only (a plain %s races with them)" % (nm, "write" if write else "read"), pos, self.step))
        for (obj, pref, lockp, nm) in self.guarded_cells:
            if p.obj == obj and p.path[:len(pref)] == pref:
                held = self.lock_held(alt, lockp)
                if held is not True:
                    self.violations.append(("assert", AND(alt.guard, NOT(held)), "%s is only accessed while its lock is held" % nm, pos, self.step))

    def load(self, alt, p, pos=""):
        if type(p) is Ptr and (self.guarded_cells or self.atomic_only):
            self.discipline(alt, p, pos, False)
        if type(p) is Union:
            outs = []
            for g, x in p.alts:
                if x is None:
                    self.sym_panic(alt, g, "nil pointer dereference", pos)
                    continue
                outs.append((g, self.load(alt, x, pos)))
            return mk_union(outs)
        if p is None:
            self.do_panic(alt, Opaque("nil pointer dereference"), pos)
            raise _Panicked()
        if type(p) is not Ptr:
            raise Unsupported("load through %r" % (p,))
        return nav(self.hget(alt, p.obj), p.path)

    def store(self, alt, p, v, g=True, pos=""):
        if type(p) is Union:
            for gg, x in p.alts:
                if x is None:
                    self.sym_panic(alt, AND(g, gg), "nil pointer dereference (store)", pos)
                    continue
                self.store(alt, x, v, AND(g, gg), pos)
            return
        if p is None:
            if g is True:
                self.do_panic(alt, Opaque("nil pointer dereference"), pos)
                raise _Panicked()
            self.sym_panic(alt, g, "nil pointer dereference (store)", pos)
            return
        if self.guarded_cells or self.atomic_only:
            self.discipline(alt, p, pos, True)
        old = self.hget(alt, p.obj)
        self.hset(alt, p.obj, upd(old, p.path, v, g))

    # ------------------------------------------------------------------ events
    def sym_panic(self, alt, cond, msg, pos):
        """a panic whose condition is symbolic: recorded as an obligation, the path continues without it"""
        c = AND(alt.guard, cond)
        if c is False:
            return
        self.violations.append(("panic", c, msg, pos, self.step))
        alt.guard = AND(alt.guard, NOT(cond))

    def violation(self, kind, cond, msg, pos):
        if cond is False:
            return
        self.violations.append((kind, cond, msg, pos, self.step))

    # ------------------------------------------------------------------ running
    def fn(self, name):
        return self.prog.func(name)

    def push_call(self, alt, fname, args, fv=()):
        f = self.fn(fname)
        if f.external:
            raise Unsupported("call of external function " + fname)
        fr = Frame(f)
        if len(args) != len(f.params):
            raise Unsupported("arity mismatch calling %s: %d vs %d" % (fname, len(args), len(f.params)))
        for p, a in zip(f.params, args):
            fr.regs[p["n"]] = a
        for p, a in zip(f.freevars, fv):
            fr.regs[p["n"]] = a
        alt.frames.append(fr)
        if len(alt.frames) > 200:
            raise BoundExceeded("call depth > 200 at " + fname)
        return fr

    def ev(self, alt, fr, o):
        if o is None:
            return None
        k = o["k"]
        if k == "r":
            try:
                return fr.regs[o["n"]]
            except KeyError:
                raise Unsupported("undefined register %s in %s" % (o["n"], fr.fn.name))
        if k == "c":
            return self.const(o)
        if k == "g":
            obj = ("g", o["n"])
            if obj not in self.heap and obj not in alt.ov:
                self.init_global(obj)
            return Ptr(obj)
        if k == "f":
            return Closure(o["n"])
        if k == "b":
            return Closure("$builtin." + o["n"])
        raise Unsupported("operand kind " + k)

    def const(self, o):
        v = o.get("v")
        if v is None:
            return self.zero(o["t"])
        if o.get("i"):
            ii = self.intinfo(o["t"])
            v = int(v)
            if ii:
                return self.wrap(v, *ii)
            t = self.T(o["t"])
            if t["kind"] == "basic" and t["cls"] == "float":
                return float(v)
            return v
        if o.get("f"):
            return float(v)
        return v

    def run_alt(self, alt):
        """run one alternative until it parks / finishes; returns the list of resulting alternatives"""
        out = []
        work = [alt]
        self._work = work
        while work:
            a = work.pop()
            try:
                self.run1(a, work)
            except _Dead:
                continue
            out.append(a)
        return out

    def run1(self, alt, work):
        while True:
            if alt.guard is False:
                raise _Dead()
            if not alt.frames:
                alt.status = "done"
                return
            fr = alt.frames[-1]
            blk = fr.fn.blocks[fr.blk]
            ins = blk["instrs"][fr.idx]
            alt.ninstr += 1
            self.stats["instrs"] += 1
            if alt.ninstr > self.max_instr:
                raise BoundExceeded("instruction budget exceeded in one macro step at %s %s" % (fr.fn.name, ins.get("pos")))
            h = _DISPATCH.get(ins["op"])
            if h is None:
                raise Unsupported("instruction %s (%s) in %s" % (ins["op"], ins.get("what"), fr.fn.name))
            try:
                r = h(self, alt, fr, ins, work)
            except _Panicked:
                if alt.status == "panicked":
                    return
                continue
            except _Retry:
                continue
            except _Dead:
                raise
            except Exception as e:
                if not getattr(e, "_annotated", False):
                    e._annotated = True
                    st = " <- ".join("%s@%s" % (f.fn.name.rsplit("/", 1)[-1], f.fn.blocks[f.blk]["instrs"][min(f.idx, len(f.fn.blocks[f.blk]["instrs"]) - 1)].get("pos", "")) for f in reversed(alt.frames[-6:]))
                    e.args = (("%s  [at %s %s: %s]" % (e.args[0] if e.args else "", ins["op"], ins.get("pos"), st)),) + tuple(e.args[1:])
                raise
            if r is PARK:
                alt.status = "parked"
                return
            if r is DEAD:
                raise _Dead()

    # -- control helpers
    def goto(self, fr, succ_i):
        blk = fr.fn.blocks[fr.blk]
        fr.prev = fr.blk
        fr.blk = blk["succs"][succ_i]
        fr.idx = 0

    def fork_alt(self, alt, work):
        b = alt.copy()
        self.stats["forks"] += 1
        work.append(b)
        return b

    def split_reg(self, alt, fr, o, work, extra_none_ok=True):
        """operand o evaluates to a union: continue once per feasible alternative with the register narrowed.
        Returns True when a split happened (the instruction must be retried)."""
        v = self.ev(alt, fr, o)
        if type(v) is not Union:
            return False
        if o["k"] != "r":
            raise Unsupported("union in non-register operand")
        feas = [(g, x) for g, x in v.alts if (AND(alt.guard, g) is not False and (self.lazy_split or self.feasible(alt.guard, g)))]
        if not feas:
            alt.guard = False
            raise _Dead()
        name = o["n"]
        for g, x in feas[1:]:
            b = self.fork_alt(alt, work)
            b.guard = AND(alt.guard, g)
            b.frames[-1].regs[name] = x
        g, x = feas[0]
        alt.guard = AND(alt.guard, g)
        fr.regs[name] = x
        raise _Retry()

    def concretize(self, alt, fr, o, work, cands):
        """operand o is a symbolic int: split over candidate concrete values"""
        v = self.ev(alt, fr, o)
        if is_int_conc(v):
            return v
        if o["k"] != "r":
            raise Unsupported("symbolic constant?")
        if type(v) is Union:
            self.split_reg(alt, fr, o, work)
        name = o["n"]
        feas = []
        for c in cands:
            g = (v == c)
            if self.feasible(alt.guard, g):
                feas.append((g, c))
        other = AND(*[NOT(g) for g, c in feas])
        if self.feasible(alt.guard, other):
            raise BoundExceeded("symbolic integer outside candidate range at %s" % fr.fn.name)
        if not feas:
            alt.guard = False
            raise _Dead()
        for g, c in feas[1:]:
            b = self.fork_alt(alt, work)
            b.guard = AND(alt.guard, g)
            b.frames[-1].regs[name] = c
        g, c = feas[0]
        alt.guard = AND(alt.guard, g)
        fr.regs[name] = c
        raise _Retry()

    def split_len(self, alt, fr, o, work):
        """operand o is a slice with a symbolic length: continue once per feasible concrete length"""
        v = self.ev(alt, fr, o)
        if type(v) is Union:
            self.split_reg(alt, fr, o, work)
        if type(v) is not Slice or type(v.len) is int:
            return
        if o["k"] != "r":
            raise Unsupported("symbolic-length slice in non-register operand")
        name = o["n"]
        feas = []
        for c in range(v.cap + 1):
            g = _n(v.len == c)
            if self.feasible(alt.guard, g):
                feas.append((g, c))
        if not feas:
            alt.guard = False
            raise _Dead()
        for g, c in feas[1:]:
            b = self.fork_alt(alt, work)
            b.guard = AND(alt.guard, g)
            b.frames[-1].regs[name] = Slice(v.obj, v.path, v.off, c, v.cap)
        g, c = feas[0]
        alt.guard = AND(alt.guard, g)
        fr.regs[name] = Slice(v.obj, v.path, v.off, c, v.cap)
        raise _Retry()

    def permute_entries(self, alt, st):
        """iteration order of a map as a solver variable: one of the n! orders of its entries (n <= 4)"""
        if type(st) is Union:
            return mk_union([(g, self.permute_entries(alt, e)) for g, e in st.alts])
        n = len(st)
        if n <= 1:
            return st
        if n > 4:
            raise BoundExceeded("map with %d entries ranged over in symbolic order" % n)
        perms = list(itertools.permutations(st))
        v = self.nondet("maporder", "int")
        self.add_constraint(z3.And(v >= 0, v < len(perms)))
        return mk_union([(_n(v == i), p) for i, p in enumerate(perms)])

    # -- panics
    def do_panic(self, alt, val, pos):
        """a definite panic on this alternative: unwind through deferred calls"""
        alt.panic = (val, pos)
        self.unwind(alt)

    def unwind(self, alt):
        while alt.frames:
            fr = alt.frames[-1]
            fr.panicking = True
            if fr.defers:
                d = fr.defers.pop()
                self.invoke_deferred(alt, fr, d)
                return
            if fr.recovered and alt.panic is None:
                # function returns normally with its named results (via the recover block)
                fr.panicking = False
                if fr.fn.recover is not None:
                    fr.prev = fr.blk
                    fr.blk = fr.fn.recover
                    fr.idx = 0
                    return
                self.do_return(alt, fr, tuple(self.zero(t) for t in fr.fn.results))
                return
            alt.frames.pop()
            if fr.on_return:
                self.on_return_handlers[fr.on_return[0]](self, alt, fr.on_return, None, True)
        # unrecovered panic at the top of the thread
        val, pos = alt.panic
        self.violations.append(("panic", alt.guard, "unrecovered panic: %r" % (val,), pos, self.step))
        alt.status = "panicked"

    def invoke_deferred(self, alt, fr, d):
        kind, target, args = d
        nf = self.call_value(alt, target, args, None, deferred=True)

    def do_return(self, alt, fr, results):
        alt.frames.pop()
        rv = results[0] if len(results) == 1 else (tuple(results) if results else None)
        if fr.on_return:
            self.on_return_handlers[fr.on_return[0]](self, alt, fr.on_return, rv, False)
            return
        if not alt.frames:
            return
        caller = alt.frames[-1]
        if fr.tag == "init":
            return
        if fr.tag == "deferred":
            # resume the caller's RunDefers / unwinding
            if caller.panicking:
                if alt.panic is None:
                    caller.recovered = True
                self.unwind(alt)
            return
        cins = caller.fn.blocks[caller.blk]["instrs"][caller.idx]
        if "r" in cins:
            caller.regs[cins["r"]] = rv
        caller.idx += 1

    # -- calls
    def call_value(self, alt, target, args, ins, deferred=False, spawn=False):
        """target: ('fn', name, fv) | ('intr', name); returns after pushing a frame / executing an intrinsic"""
        kind = target[0]
        if kind == "fn":
            fr = self.push_call(alt, target[1], args, target[2])
            if deferred:
                fr.tag = "deferred"
            return fr
        raise Unsupported("call target " + repr(target))

    def resolve_callee(self, alt, fr, call, work):
        """-> (name, args, fv)"""
        mode = call["mode"]
        args = [self.ev(alt, fr, a) for a in call["args"]]
        if mode == "static":
            return call["fn"], args, ()
        if mode == "dynamic":
            v = self.ev(alt, fr, call["value"])
            if type(v) is Union:
                self.split_reg(alt, fr, call["value"], work)
            if v is None:
                self.do_panic(alt, Opaque("call of nil function"), "")
                raise _Panicked()
            if type(v) is not Closure:
                raise Unsupported("call of %r" % (v,))
            return v.fn, args, v.fv
        if mode == "invoke":
            v = self.ev(alt, fr, call["recv"])
            if type(v) is Union:
                self.split_reg(alt, fr, call["recv"], work)
            if v is None:
                self.do_panic(alt, Opaque("nil interface method call " + call["method"]), "")
                raise _Panicked()
            if type(v) is not Iface:
                raise Unsupported("invoke on %r" % (v,))
            key = (v.t, call["method"])
            if key in self.intrinsics:
                return key, [v.v] + args, ()
            if v.t.startswith("$"):
                raise Unsupported("no model for method %s of %s" % (call["method"], v.t))
            fname = self.prog.method(v.t, call["method"], call.get("mpkg", ""))
            return fname, [v.v] + args, ()
        raise Unsupported("call mode " + mode)


class _Sentinel:
    def __init__(self, n):
        self.n = n

    def __repr__(self):
        return self.n


_MISSING = _Sentinel("MISSING")
PARK = _Sentinel("PARK")
DEAD = _Sentinel("DEAD")


class _Dead(Exception):
    pass


class _Retry(Exception):
    pass


class _Panicked(Exception):
    pass


def _n(x):
    if is_z3(x):
        if z3.is_true(x):
            return True
        if z3.is_false(x):
            return False
    return x


# ====================================================================== instruction handlers
def i_alloc(m, alt, fr, ins, work):
    obj = m.new_obj(alt, m.zero(ins["et"]))
    fr.regs[ins["r"]] = Ptr(obj)
    fr.idx += 1


def eq_vals(m, a, b):
    if type(a) is Union or type(b) is Union:
        r = False
        for g1, x in alts_of(a):
            for g2, y in alts_of(b):
                r = OR(r, AND(g1, g2, eq_vals(m, x, y)))
        return r
    if is_z3(a) or is_z3(b):
        if is_bool_conc(a) or is_bool_conc(b) or (is_z3(a) and z3.is_bool(a)):
            a, b = B(a), B(b)
            return _n(a == b)
        if is_z3(a) and z3.is_bv(a):
            if is_int_conc(b):
                b = z3.BitVecVal(b, a.size())
            return _n(a == b)
        if is_z3(b) and z3.is_bv(b):
            if is_int_conc(a):
                a = z3.BitVecVal(a, b.size())
            return _n(a == b)
        if is_z3(a) and is_z3(b) and a.sort() == b.sort():
            return _n(a == b)
        return False
    ta, tb = type(a), type(b)
    if (ta is Opaque and _strlike(a) and tb in (str, Opaque)) or (tb is Opaque and _strlike(b) and ta in (str, Opaque)):
        return str_eq(m, a, b)
    if ta is tuple and tb is tuple:
        if len(a) != len(b):
            return False
        return AND(*[eq_vals(m, x, y) for x, y in zip(a, b)])
    if ta is Iface and tb is Iface:
        if a.t != b.t:
            return False
        return eq_vals(m, a.v, b.v)
    if a is None or b is None:
        if a is None and b is None:
            return True
        o = b if a is None else a
        if type(o) is Slice:
            return o.obj is None
        return False
    if ta is Slice and tb is Slice and (a.obj is None or b.obj is None):
        return a.obj is None and b.obj is None
    if ta is Slice or tb is Slice:
        raise Unsupported("slice comparison")
    if ta is float or tb is float:
        return float(a) == float(b)
    if ta is not tb:
        return False
    return a == b


_CMP = {"<", "<=", ">", ">="}


def _parts(x):
    if type(x) is str:
        return [x] if x else []
    if type(x) is Opaque and type(x.what) is tuple and x.what and x.what[0] == "cat":
        return list(x.what[1])
    if type(x) is Opaque:
        return [x]
    raise Unsupported("string part %r" % (x,))


def str_cat(a, b):
    """concatenation with uninterpreted pieces: a normalised list of concrete segments and opaque pieces"""
    out = []
    for p in _parts(a) + _parts(b):
        if type(p) is str and out and type(out[-1]) is str:
            out[-1] = out[-1] + p
        else:
            out.append(p)
    if not out:
        return ""
    if len(out) == 1:
        return out[0]
    return Opaque(("cat", tuple(out)))


def _strlike(x):
    w = x.what
    return type(w) is tuple and len(w) > 0 and w[0] in ("cat", "FormatInt", "FormatUint")


def _fmtnum(x):
    w = x.what if type(x) is Opaque and type(x.what) is tuple else None
    if w and w[0] in ("FormatInt", "FormatUint"):
        return w
    return None


def str_eq(m, a, b):
    """equality of strings with uninterpreted pieces (formula).  Two concatenations with the same shape (same concrete
    segments at the same places, separating the formatted numbers) are equal iff their pieces are; formatted numbers of
    one base are equal iff the numbers are (strconv.FormatInt/FormatUint are injective)."""
    if type(a) is str and type(b) is str:
        return a == b
    pa, pb = _parts(a), _parts(b)
    if len(pa) == 1 and len(pb) == 1:
        x, y = pa[0], pb[0]
        if type(x) is str or type(y) is str:
            s_, o_ = (x, y) if type(x) is str else (y, x)
            w = _fmtnum(o_)
            if w:
                try:
                    n = int(s_, w[2])
                except ValueError:
                    return False
                if s_ != s_.strip() or s_.startswith("+") or (len(s_) > 1 and s_.lstrip("-").startswith("0")):
                    return False
                return eq_vals(m, w[1], n)
            return False if o_.what and o_.what[0] in ("fmt", "json") and s_ == "" else _unsup_eq(a, b)
        wx, wy = _fmtnum(x), _fmtnum(y)
        if wx and wy:
            if wx[2] != wy[2]:
                raise Unsupported("equality of numbers formatted in different bases")
            return eq_vals(m, wx[1], wy[1])
        if x.what == y.what:
            return True
        return _unsup_eq(a, b)
    if len(pa) != len(pb):
        # a concrete segment that the other side cannot contain decides it; otherwise undecidable here
        ca = "".join(p for p in pa if type(p) is str)
        cb = "".join(p for p in pb if type(p) is str)
        if all(type(p) is str for p in pa) or all(type(p) is str for p in pb):
            full, other = (ca, pb) if all(type(p) is str for p in pa) else (cb, pa)
            for p in other:
                if type(p) is str and p not in full:
                    return False
        return _unsup_eq(a, b)
    out = True
    for x, y in zip(pa, pb):
        if (type(x) is str) != (type(y) is str):
            return _unsup_eq(a, b)
        if type(x) is str:
            if x != y:
                return False
            continue
        out = AND(out, str_eq(m, x, y))
    return out


def _unsup_eq(a, b):
    raise Unsupported("cannot decide equality of strings %r and %r" % (a, b))


def int_binop(m, op, x, y, bits, signed):
    if type(x) is Union or type(y) is Union:
        if all(is_int_conc(v) for g, v in alts_of(x)) and all(is_int_conc(v) for g, v in alts_of(y)):
            return lift2(x, y, lambda a, b: int_binop(m, op, a, b, bits, signed))
        x = m.bv(x, bits)
        y = m.bv(y, bits) if op not in ("<<", ">>") else y
    if is_int_conc(x) and is_int_conc(y):
        if op == "+":
            r = x + y
        elif op == "-":
            r = x - y
        elif op == "*":
            r = x * y
        elif op == "/":
            if y == 0:
                raise ZeroDivisionError
            r = abs(x) // abs(y)
            if (x < 0) != (y < 0):
                r = -r
        elif op == "%":
            if y == 0:
                raise ZeroDivisionError
            r = abs(x) % abs(y)
            if x < 0:
                r = -r
        elif op == "&":
            r = x & y
        elif op == "|":
            r = x | y
        elif op == "^":
            r = x ^ y
        elif op == "&^":
            r = x & ~y
        elif op == "<<":
            r = 0 if y >= bits else x << y
        elif op == ">>":
            r = (x >> min(y, bits + 1))
        elif op == "==":
            return x == y
        elif op == "!=":
            return x != y
        elif op == "<":
            return x < y
        elif op == "<=":
            return x <= y
        elif op == ">":
            return x > y
        elif op == ">=":
            return x >= y
        else:
            raise Unsupported("int op " + op)
        return m.wrap(r, bits, signed)
    a = m.bv(x, bits)
    if op in ("<<", ">>"):
        # shift count has its own type; bring to same width (unsigned)
        if is_int_conc(y):
            b = z3.BitVecVal(min(y, bits), bits)
        else:
            yb = y if is_z3(y) else m.bv(y, bits)
            if yb.size() < bits:
                b = z3.ZeroExt(bits - yb.size(), yb)
            elif yb.size() > bits:
                b = z3.If(z3.UGE(yb, bits), z3.BitVecVal(bits, bits), z3.Extract(bits - 1, 0, yb))
            else:
                b = yb
        if op == "<<":
            return a << b
        return (a >> b) if signed else z3.LShR(a, b)
    b = m.bv(y, bits)
    if op == "+":
        return a + b
    if op == "-":
        return a - b
    if op == "*":
        return a * b
    if op == "/":
        return (a / b) if signed else z3.UDiv(a, b)
    if op == "%":
        return z3.SRem(a, b) if signed else z3.URem(a, b)
    if op == "&":
        return a & b
    if op == "|":
        return a | b
    if op == "^":
        return a ^ b
    if op == "&^":
        return a & ~b
    if op == "==":
        return _n(a == b)
    if op == "!=":
        return _n(a != b)
    if op == "<":
        return _n((a < b) if signed else z3.ULT(a, b))
    if op == "<=":
        return _n((a <= b) if signed else z3.ULE(a, b))
    if op == ">":
        return _n((a > b) if signed else z3.UGT(a, b))
    if op == ">=":
        return _n((a >= b) if signed else z3.UGE(a, b))
    raise Unsupported("int op " + op)


def i_binop(m, alt, fr, ins, work):
    op = ins["o"]
    x = m.ev(alt, fr, ins["x"])
    y = m.ev(alt, fr, ins["y"])
    t = m.T(ins["xt"])
    res = None
    if t["kind"] == "basic":
        c = t["cls"]
        if c == "int":
            bits, signed = t["bits"], t["signed"]
            if op in ("/", "%"):
                if is_int_conc(y):
                    if y == 0:
                        m.do_panic(alt, Opaque("integer divide by zero"), ins["pos"])
                        raise _Panicked()
                else:
                    yb = m.bv(y, bits)
                    m.sym_panic(alt, _n(yb == 0), "integer divide by zero", ins["pos"])
            if op in ("<<", ">>"):
                ys = m.intinfo(ins["yt"])
                if ys and ys[1]:
                    if is_int_conc(y) and y < 0:
                        m.do_panic(alt, Opaque("negative shift amount"), ins["pos"])
                        raise _Panicked()
            res = int_binop(m, op, x, y, bits, signed)
        elif c == "bool":
            if op == "==":
                res = eq_vals(m, x, y)
            elif op == "!=":
                res = NOT(eq_vals(m, x, y))
            elif op == "&":
                res = AND(m.bool_of(x), m.bool_of(y))
            elif op == "|":
                res = OR(m.bool_of(x), m.bool_of(y))
            else:
                raise Unsupported("bool op " + op)
        elif c == "string":
            def sop(a, b):
                if type(a) is not str or type(b) is not str:
                    if op == "+":
                        return str_cat(a, b)
                    if op in ("==", "!="):
                        r = str_eq(m, a, b)
                        return r if op == "==" else NOT(r)
                    raise Unsupported("string op on %r %r" % (a, b))
                if op == "+":
                    return a + b
                return {"==": a == b, "!=": a != b, "<": a < b, "<=": a <= b, ">": a > b, ">=": a >= b}[op]
            res = lift2(x, y, sop)
            if op != "+":
                res = m.bool_of(res)
        elif c == "float":
            def fop(a, b):
                if is_z3(a) or is_z3(b):
                    raise Unsupported("symbolic float")
                a, b = float(a), float(b)
                if op == "+":
                    return a + b
                if op == "-":
                    return a - b
                if op == "*":
                    return a * b
                if op == "/":
                    return a / b if b != 0 else (float("inf") if a > 0 else float("-inf") if a < 0 else float("nan"))
                return {"==": a == b, "!=": a != b, "<": a < b, "<=": a <= b, ">": a > b, ">=": a >= b}[op]
            res = lift2(x, y, fop)
            if op in ("==", "!=", "<", "<=", ">", ">="):
                res = m.bool_of(res)
        else:
            raise Unsupported("binop on basic " + c)
    else:
        if op == "==":
            res = eq_vals(m, x, y)
        elif op == "!=":
            res = NOT(eq_vals(m, x, y))
        else:
            raise Unsupported("binop %s on %s" % (op, t["kind"]))
    fr.regs[ins["r"]] = res
    fr.idx += 1


def i_unop(m, alt, fr, ins, work):
    op = ins["o"]
    if op == "<-":
        return i_recv(m, alt, fr, ins, work)
    x = m.ev(alt, fr, ins["x"])
    if op == "*":
        fr.regs[ins["r"]] = m.load(alt, x, ins["pos"])
    elif op == "!":
        fr.regs[ins["r"]] = NOT(m.bool_of(x))
    elif op == "-":
        ii = m.intinfo(ins["t"])
        if ii:
            if is_int_conc(x):
                fr.regs[ins["r"]] = m.wrap(-x, *ii)
            else:
                fr.regs[ins["r"]] = -m.bv(x, ii[0])
        else:
            fr.regs[ins["r"]] = lift1(x, lambda a: -a)
    elif op == "^":
        ii = m.intinfo(ins["t"])
        if is_int_conc(x):
            fr.regs[ins["r"]] = m.wrap(~x, *ii)
        else:
            fr.regs[ins["r"]] = ~m.bv(x, ii[0])
    else:
        raise Unsupported("unop " + op)
    fr.idx += 1


def i_phi(m, alt, fr, ins, work):
    blk = fr.fn.blocks[fr.blk]
    instrs = blk["instrs"]
    pi = blk["preds"].index(fr.prev)
    # all phis of the block read the old values
    vals = []
    j = fr.idx
    while j < len(instrs) and instrs[j]["op"] == "Phi":
        vals.append((instrs[j]["r"], m.ev(alt, fr, instrs[j]["edges"][pi])))
        j += 1
    for r, v in vals:
        fr.regs[r] = v
    fr.idx = j


def i_jump(m, alt, fr, ins, work):
    m.goto(fr, 0)


def i_if(m, alt, fr, ins, work):
    c = m.bool_of(m.ev(alt, fr, ins["cond"]))
    c = _n(c)
    if c is True:
        m.goto(fr, 0)
        return
    if c is False:
        m.goto(fr, 1)
        return
    ft = m.feasible(alt.guard, c)
    # alt.guard itself is feasible (invariant of every running alternative): if c is impossible, !c is possible
    ff = m.feasible(alt.guard, NOT(c)) if ft else True
    if ft and ff:
        b = m.fork_alt(alt, work)
        b.guard = AND(alt.guard, NOT(c))
        m.goto(b.frames[-1], 1)
        alt.guard = AND(alt.guard, c)
        m.goto(fr, 0)
    elif ft:
        m.goto(fr, 0)
    elif ff:
        m.goto(fr, 1)
    else:
        return DEAD


def i_return(m, alt, fr, ins, work):
    res = [m.ev(alt, fr, r) for r in ins["results"]]
    if fr.defers:
        raise Unsupported("return with pending defers (no RunDefers?)")
    m.do_return(alt, fr, res)


def i_defer(m, alt, fr, ins, work):
    call = ins["call"]
    if call["mode"] == "builtin":
        args = [m.ev(alt, fr, a) for a in call["args"]]
        fr.defers.append(("builtin", call["fn"], args, call))
    else:
        name, args, fv = m.resolve_callee(alt, fr, call, work)
        fr.defers.append(("fn", name, args, fv))
    fr.idx += 1


def i_panic(m, alt, fr, ins, work):
    v = m.ev(alt, fr, ins["x"])
    m.do_panic(alt, v, ins["pos"])
    raise _Panicked()


def i_extract(m, alt, fr, ins, work):
    x = m.ev(alt, fr, ins["x"])
    i = ins["index"]
    fr.regs[ins["r"]] = lift1(x, lambda t: t[i])
    fr.idx += 1


def i_field(m, alt, fr, ins, work):
    x = m.ev(alt, fr, ins["x"])
    i = ins["field"]
    fr.regs[ins["r"]] = lift1(x, lambda t: t[i])
    fr.idx += 1


def i_fieldaddr(m, alt, fr, ins, work):
    x = m.ev(alt, fr, ins["x"])
    i = ins["field"]
    if x is None:
        m.do_panic(alt, Opaque("nil pointer dereference (field)"), ins["pos"])
        raise _Panicked()

    def fa(p):
        if p is None:
            return None  # dereference will be reported at the load/store
        return Ptr(p.obj, p.path + (i,))
    fr.regs[ins["r"]] = lift1(x, fa)
    fr.idx += 1


def i_indexaddr(m, alt, fr, ins, work):
    x = m.ev(alt, fr, ins["x"])
    idx = m.ev(alt, fr, ins["index"])
    t = m.T(ins["xt"])
    if type(x) is Union:
        if t["kind"] == "slice" and is_int_conc(idx) and all(type(sl) is Slice for g, sl in x.alts):
            # several possible backing arrays: a guarded pointer, no path split
            outs = []
            for g, sl in x.alts:
                if sl.obj is None or idx < 0 or idx >= sl.cap:
                    m.sym_panic(alt, g, "index out of range", ins["pos"])
                    continue
                if is_int_conc(sl.len):
                    if idx >= sl.len:
                        m.sym_panic(alt, g, "index out of range", ins["pos"])
                        continue
                else:
                    m.sym_panic(alt, AND(g, _n(z3.BitVecVal(idx, 64) >= sl.len)), "index out of range", ins["pos"])
                outs.append((g, Ptr(sl.obj, sl.path + (sl.off + idx,))))
            if not outs or alt.guard is False:
                return DEAD
            fr.regs[ins["r"]] = mk_union(outs)
            fr.idx += 1
            return
        m.split_reg(alt, fr, ins["x"], work)
    if t["kind"] == "slice":
        n = x.len
    else:
        if x is None:
            m.do_panic(alt, Opaque("nil pointer dereference (index)"), ins["pos"])
            raise _Panicked()
        n = m.T(t["elem"])["len"]
    if not is_int_conc(n):
        # symbolic slice length: bounds check as a formula, index split over the capacity
        if not is_int_conc(idx):
            ib = m.bv(idx, _width_of(idx, 64))
            if ib.size() < 64:
                ib = z3.SignExt(64 - ib.size(), ib)
            m.sym_panic(alt, _n(z3.Or(ib < 0, ib >= n)), "index out of range", ins["pos"])
            if alt.guard is False or not m.feasible(alt.guard):
                return DEAD
            m.concretize(alt, fr, ins["index"], work, range(x.cap))
        if idx < 0 or idx >= x.cap:
            m.do_panic(alt, Opaque("index out of range [%d] with capacity %d" % (idx, x.cap)), ins["pos"])
            raise _Panicked()
        m.sym_panic(alt, _n(z3.BitVecVal(idx, 64) >= n), "index out of range", ins["pos"])
        if alt.guard is False or not m.feasible(alt.guard):
            return DEAD
        fr.regs[ins["r"]] = Ptr(x.obj, x.path + (x.off + idx,))
        fr.idx += 1
        return
    if not is_int_conc(idx):
        if n == 0:
            m.do_panic(alt, Opaque("index out of range (empty)"), ins["pos"])
            raise _Panicked()
        ib = m.bv(idx, _width_of(idx, 64))
        m.sym_panic(alt, _n(z3.Or(ib < 0, ib >= n)), "index out of range", ins["pos"])
        m.concretize(alt, fr, ins["index"], work, range(n))
    if idx < 0 or idx >= n:
        m.do_panic(alt, Opaque("index out of range [%d] with length %d" % (idx, n)), ins["pos"])
        raise _Panicked()
    if t["kind"] == "slice":
        fr.regs[ins["r"]] = Ptr(x.obj, x.path + (x.off + idx,))
    else:
        fr.regs[ins["r"]] = Ptr(x.obj, x.path + (idx,))
    fr.idx += 1


def _width_of(v, default):
    if is_z3(v) and z3.is_bv(v):
        return v.size()
    if type(v) is Union:
        for g, x in v.alts:
            if is_z3(x) and z3.is_bv(x):
                return x.size()
    return default


def _optype(m, o, default):
    return o.get("t", default)


def i_index(m, alt, fr, ins, work):
    x = m.ev(alt, fr, ins["x"])
    idx = m.ev(alt, fr, ins["index"])
    if not is_int_conc(idx):
        if type(x) is Union:
            m.split_reg(alt, fr, ins["x"], work)
        n = len(x)
        ib = m.bv(idx, _width_of(idx, 64))
        m.sym_panic(alt, _n(z3.Or(ib < 0, ib >= n)), "index out of range", ins["pos"])
        m.concretize(alt, fr, ins["index"], work, range(n))

    def ix(t):
        if type(t) is str:
            b = t.encode("utf-8")
            if idx < 0 or idx >= len(b):
                raise _IndexErr()
            return b[idx]
        if idx < 0 or idx >= len(t):
            raise _IndexErr()
        return t[idx]
    try:
        fr.regs[ins["r"]] = lift1(x, ix)
    except _IndexErr:
        m.do_panic(alt, Opaque("index out of range"), ins["pos"])
        raise _Panicked()
    fr.idx += 1


class _IndexErr(Exception):
    pass


def i_store(m, alt, fr, ins, work):
    p = m.ev(alt, fr, ins["addr"])
    v = m.ev(alt, fr, ins["val"])
    m.store(alt, p, v, True, ins["pos"])
    fr.idx += 1


def i_makeclosure(m, alt, fr, ins, work):
    fr.regs[ins["r"]] = Closure(ins["fn"], tuple(m.ev(alt, fr, b) for b in ins["bindings"]))
    fr.idx += 1


def i_makeinterface(m, alt, fr, ins, work):
    x = m.ev(alt, fr, ins["x"])
    fr.regs[ins["r"]] = Iface(ins["xt"], x)
    fr.idx += 1


def i_changeinterface(m, alt, fr, ins, work):
    fr.regs[ins["r"]] = m.ev(alt, fr, ins["x"])
    fr.idx += 1


def i_changetype(m, alt, fr, ins, work):
    fr.regs[ins["r"]] = m.ev(alt, fr, ins["x"])
    fr.idx += 1


def i_convert(m, alt, fr, ins, work):
    x = m.ev(alt, fr, ins["x"])
    st = m.T(ins["xt"])
    dt = m.T(ins["t"])
    sk, dk = st["kind"], dt["kind"]
    res = _MISSING
    if sk == "basic" and dk == "basic":
        sc, dc = st["cls"], dt["cls"]
        if sc == "int" and dc == "int":
            sb, ss, db, ds = st["bits"], st["signed"], dt["bits"], dt["signed"]

            def cv(a):
                if is_int_conc(a):
                    return m.wrap(a, db, ds)
                a = m.bv(a, sb)
                if db == sb:
                    return a
                if db < sb:
                    return z3.Extract(db - 1, 0, a)
                return z3.SignExt(db - sb, a) if ss else z3.ZeroExt(db - sb, a)
            if type(x) is Union and not all(is_int_conc(v) for g, v in x.alts):
                x = m.bv(x, sb)
            res = lift1(x, cv)
        elif sc == "int" and dc == "float":
            res = lift1(x, lambda a: _f32(float(a), dt) if is_int_conc(a) else _unsup("symbolic int->float"))
        elif sc == "float" and dc == "int":
            res = lift1(x, lambda a: m.wrap(int(a), dt["bits"], dt["signed"]))
        elif sc == "float" and dc == "float":
            res = lift1(x, lambda a: _f32(a, dt) if isinstance(a, float) else a)
        elif sc == "string" and dc == "string":
            res = x
        elif sc == "int" and dc == "string":
            res = lift1(x, lambda a: chr(a) if is_int_conc(a) else _unsup("symbolic rune->string"))
        elif sc == "unsafeptr" or dc == "unsafeptr":
            res = x
    elif sk == "basic" and st["cls"] == "string" and dk == "slice":
        # string -> []byte / []rune
        et = m.T(dt["elem"])

        def s2b(s):
            if type(s) is Opaque:
                obj = m.new_obj(alt, (s,), disc=1)
                return Slice(obj, (), 0, 1, 1)
            if type(s) is not str:
                raise Unsupported("convert %r to slice" % (s,))
            data = tuple(s.encode("utf-8")) if et["bits"] == 8 else tuple(ord(c) for c in s)
            obj = m.new_obj(alt, data, disc=len(data))
            return Slice(obj, (), 0, len(data), len(data))
        res = lift1(x, s2b)
    elif sk == "slice" and dk == "basic" and dt["cls"] == "string":
        et = m.T(st["elem"])

        def b2s(s):
            if type(s) is Opaque:
                return s
            if s.obj is None:
                return ""
            if type(s.len) is not int:
                raise Unsupported("symbolic-length bytes -> string")
            arr = nav(m.hget(alt, s.obj), s.path)
            data = arr[s.off:s.off + s.len]
            if len(data) == 1 and type(data[0]) is Opaque:
                return data[0]   # uninterpreted text (e.g. marshalled JSON)
            if not all(is_int_conc(b) for b in data):
                raise Unsupported("symbolic bytes -> string")
            if et["bits"] == 8:
                return bytes(data).decode("utf-8", errors="replace")
            return "".join(chr(c) for c in data)
        res = lift1(x, b2s)
    elif sk == dk:
        res = x
    elif sk == "pointer" or dk == "pointer":
        res = x
    if res is _MISSING:
        raise Unsupported("convert %s -> %s" % (ins["xt"], ins["t"]))
    fr.regs[ins["r"]] = res
    fr.idx += 1


def _unsup(msg):
    raise Unsupported(msg)


def _f32(a, dt):
    if dt.get("basic") == "float32":
        import struct
        try:
            return struct.unpack("f", struct.pack("f", a))[0]
        except OverflowError:
            return float("inf") if a > 0 else float("-inf")
    return a


def type_matches(m, v, at):
    """does interface value v (plain, not union) hold asserted type at?  -> bool"""
    if v is None:
        return False
    if type(v) is not Iface:
        raise Unsupported("type assert on %r" % (v,))
    t = m.T(at)
    if t["kind"] == "interface":
        if v.t.startswith("$"):
            return m.model_implements(v.t, at)
        return m.prog.implements(v.t, at)
    return v.t == at


def i_typeassert(m, alt, fr, ins, work):
    x = m.ev(alt, fr, ins["x"])
    at = ins["at"]
    is_iface = m.T(at)["kind"] == "interface"
    zero = m.zero(at)
    oks = []
    vals = []
    for g, v in alts_of(x):
        ok = type_matches(m, v, at)
        oks.append((g, ok))
        if ok:
            vals.append((g, v if is_iface else v.v))
    okf = OR(*[g for g, ok in oks if ok])
    if ins["commaok"]:
        val = mk_union(vals + [(NOT(okf), zero)]) if vals else zero
        fr.regs[ins["r"]] = (val, okf)
    else:
        if okf is False:
            m.do_panic(alt, Opaque("interface conversion: %r is not %s" % (x, at)), ins["pos"])
            raise _Panicked()
        if okf is not True:
            m.sym_panic(alt, NOT(okf), "interface conversion failed (%s)" % at, ins["pos"])
        fr.regs[ins["r"]] = mk_union(vals)
    fr.idx += 1


def i_makeslice(m, alt, fr, ins, work):
    n = m.ev(alt, fr, ins["len"])
    c = m.ev(alt, fr, ins["cap"])
    if not is_int_conc(n):
        m.concretize(alt, fr, ins["len"], work, range(0, 65))
    if not is_int_conc(c):
        m.concretize(alt, fr, ins["cap"], work, range(0, 65))
    if n < 0 or c < n:
        m.do_panic(alt, Opaque("makeslice: len out of range"), ins["pos"])
        raise _Panicked()
    et = m.T(ins["t"])["elem"]
    z = m.zero(et)
    obj = m.new_obj(alt, tuple(z for _ in range(c)), disc=c)
    fr.regs[ins["r"]] = Slice(obj, (), 0, n, c)
    fr.idx += 1


def i_slice(m, alt, fr, ins, work):
    x = m.ev(alt, fr, ins["x"])
    if type(x) is Union:
        m.split_reg(alt, fr, ins["x"], work)
    t = m.T(ins["xt"])
    lo = m.ev(alt, fr, ins["low"]) if ins["low"] else 0
    hi = m.ev(alt, fr, ins["high"]) if ins["high"] else None
    mx = m.ev(alt, fr, ins["max"]) if ins["max"] else None
    if t["kind"] == "basic":  # string
        n = len(x.encode("utf-8"))
        if hi is None:
            hi = n
        if not is_int_conc(lo):
            m.concretize(alt, fr, ins["low"], work, range(n + 1))
        if not is_int_conc(hi):
            m.concretize(alt, fr, ins["high"], work, range(n + 1))
        if lo < 0 or hi > n or lo > hi:
            m.do_panic(alt, Opaque("slice bounds out of range"), ins["pos"])
            raise _Panicked()
        fr.regs[ins["r"]] = x.encode("utf-8")[lo:hi].decode("utf-8", errors="replace")
        fr.idx += 1
        return
    if t["kind"] == "slice":
        base_obj, base_path, off, ln, cp = x.obj, x.path, x.off, x.len, x.cap
    else:  # pointer to array
        if x is None:
            m.do_panic(alt, Opaque("nil pointer dereference (slice)"), ins["pos"])
            raise _Panicked()
        n = m.T(t["elem"])["len"]
        base_obj, base_path, off, ln, cp = x.obj, x.path, 0, n, n
    if hi is None:
        hi = ln
    if mx is None:
        mx = cp
    if not is_int_conc(lo):
        m.concretize(alt, fr, ins["low"], work, range(cp + 1))
    if not is_int_conc(hi) and is_int_conc(mx) and base_obj is not None and not (type(hi) is Union):
        # symbolic upper bound (e.g. s[:len(s)-1] on a slice of symbolic length): the result has a symbolic length
        hb = m.bv(hi, 64)
        m.sym_panic(alt, _n(z3.Or(hb < lo, hb > mx)), "slice bounds out of range", ins["pos"])
        if alt.guard is False or not m.feasible(alt.guard):
            return DEAD
        fr.regs[ins["r"]] = Slice(base_obj, base_path, off + lo, hb - lo if lo else hb, mx - lo)
        fr.idx += 1
        return
    if not is_int_conc(hi):
        m.concretize(alt, fr, ins["high"], work, range(cp + 1))
    if not is_int_conc(mx):
        m.concretize(alt, fr, ins["max"], work, range(cp + 1))
    if lo < 0 or hi < lo or hi > mx or mx > cp:
        m.do_panic(alt, Opaque("slice bounds out of range [%d:%d:%d] cap %d" % (lo, hi, mx, cp)), ins["pos"])
        raise _Panicked()
    if base_obj is None:
        fr.regs[ins["r"]] = NILSLICE
    else:
        fr.regs[ins["r"]] = Slice(base_obj, base_path, off + lo, hi - lo, mx - lo)
    fr.idx += 1


def i_makemap(m, alt, fr, ins, work):
    obj = m.new_obj(alt, ())
    fr.regs[ins["r"]] = MapRef(obj)
    fr.idx += 1


def map_discipline(m, alt, mp, pos):
    if mp is None or not m.guarded_maps:
        return
    ent = m.guarded_maps.get(mp.obj)
    if ent is not None:
        held = m.lock_held(alt, ent[0])
        if held is not True:
            m.violations.append(("assert", AND(alt.guard, NOT(held)), "%s is only accessed while its lock is held" % ent[1], pos, m.step))


def map_lookup(m, alt, mp, key, zero):
    """-> (value, found) ; mp plain MapRef/None"""
    if mp is None:
        return zero, False
    map_discipline(m, alt, mp, "")
    st = m.hget(alt, mp.obj)
    outs = []
    for g, entries in alts_of(st):
        val, found = zero, False
        for k, v in reversed(entries):
            e = eq_vals(m, k, key)
            val = merge(e, v, val)
            found = OR(found, e)
        outs.append((g, (val, found)))
    r = mk_union(outs)
    if type(r) is Union:
        # merge componentwise
        val = mk_union([(g, x[0]) for g, x in r.alts])
        found = OR(*[AND(g, x[1]) for g, x in r.alts])
        return val, found
    return r


def i_lookup(m, alt, fr, ins, work):
    x = m.ev(alt, fr, ins["x"])
    key = m.ev(alt, fr, ins["index"])
    t = m.T(ins["xt"])
    if t["kind"] == "basic":  # string indexing
        return i_index(m, alt, fr, ins, work)
    zero = m.zero(t["elem"])
    outs = []
    for g, mp in alts_of(x):
        outs.append((g, map_lookup(m, alt, mp, key, zero)))
    if len(outs) == 1:
        val, found = outs[0][1]
    else:
        val = mk_union([(g, v[0]) for g, v in outs])
        found = OR(*[AND(g, v[1]) for g, v in outs])
    fr.regs[ins["r"]] = (val, found) if ins["commaok"] else val
    fr.idx += 1


def map_update_state(m, entries, key, val, g):
    """entries: tuple of (k,v); returns new state (maybe Union) after m[key]=val under guard g"""
    eqs = [eq_vals(m, k, key) for k, v in entries]
    anyeq = OR(*eqs)
    if anyeq is True or any(e is True for e in eqs):
        new = tuple((k, merge(AND(g, e), val, v)) for (k, v), e in zip(entries, eqs))
        return new
    if anyeq is False:
        return merge(g, entries + ((key, val),), entries)
    upd_entries = tuple((k, merge(e, val, v)) for (k, v), e in zip(entries, eqs))
    app = entries + ((key, val),)
    return mk_union([(AND(g, anyeq), upd_entries), (AND(g, NOT(anyeq)), app), (NOT(g), entries)])


def i_mapupdate(m, alt, fr, ins, work):
    x = m.ev(alt, fr, ins["map"])
    key = m.ev(alt, fr, ins["key"])
    val = m.ev(alt, fr, ins["value"])
    for g, mp in alts_of(x):
        if mp is None:
            if g is True:
                m.do_panic(alt, Opaque("assignment to entry in nil map"), ins["pos"])
                raise _Panicked()
            m.sym_panic(alt, g, "assignment to entry in nil map", ins["pos"])
            continue
        map_discipline(m, alt, mp, ins.get("pos", ""))
        st = m.hget(alt, mp.obj)
        new = mk_union([(gs, map_update_state(m, entries, key, val, g)) for gs, entries in alts_of(st)])
        m.hset(alt, mp.obj, new)
    fr.idx += 1


def map_delete(m, alt, x, key):
    for g, mp in alts_of(x):
        if mp is None:
            continue
        map_discipline(m, alt, mp, "")
        st = m.hget(alt, mp.obj)
        outs = []
        for gs, entries in alts_of(st):
            eqs = [eq_vals(m, k, key) for k, v in entries]
            if all(e is False for e in eqs):
                outs.append((gs, entries))
                continue
            # each entry may be the one deleted
            rest = gs
            for i, e in enumerate(eqs):
                if e is False:
                    continue
                outs.append((AND(rest, e, g), entries[:i] + entries[i + 1:]))
                rest = AND(rest, NOT(AND(e, g)))
            outs.append((rest, entries))
        m.hset(alt, mp.obj, mk_union(outs))


def i_range(m, alt, fr, ins, work):
    x = m.ev(alt, fr, ins["x"])
    t = m.T(ins["xt"])
    if t["kind"] == "map":
        if type(x) is Union:
            m.split_reg(alt, fr, ins["x"], work)
        if x is None:
            st = ()
        else:
            # the real runtime walks the live map during the whole loop; the encoding takes its entries here, so the
            # discipline is checked at the start of the loop
            map_discipline(m, alt, x, ins.get("pos", ""))
            st = m.hget(alt, x.obj)
        if m.map_perm:
            st = m.permute_entries(alt, st)
        obj = m.new_obj(alt, (st, 0))
    else:
        if type(x) is Union:
            m.split_reg(alt, fr, ins["x"], work)
        obj = m.new_obj(alt, (x, 0))
    fr.regs[ins["r"]] = Ptr(obj)
    fr.idx += 1


def i_next(m, alt, fr, ins, work):
    it = m.ev(alt, fr, ins["iter"])
    if type(it) is Union:
        m.split_reg(alt, fr, ins["iter"], work)
    st, i = m.hget(alt, it.obj)
    if ins["isstring"]:
        if i >= len(st):
            res = (False, 0, 0)
        else:
            ch = st[i]
            # i counts code points; report byte offset as key
            boff = len(st[:i].encode("utf-8"))
            res = (True, boff, ord(ch))
        m.hset(alt, it.obj, (st, i + 1))
    else:
        outs = []
        for gi, iv in alts_of(i):
            for g, entries in alts_of(st):
                gg = AND(gi, g)
                if gg is False:
                    continue
                if iv < len(entries):
                    outs.append((gg, (True, entries[iv][0], entries[iv][1])))
                else:
                    outs.append((gg, (False, None, None)))
        if len(outs) == 1:
            res = outs[0][1]
        else:
            # componentwise (a union of result tuples would be merged by shape, which is what we want, but keep it explicit)
            res = (m.bool_of(mk_union([(g, r[0]) for g, r in outs])),
                   mk_union([(g, r[1]) for g, r in outs if r[0]]),
                   mk_union([(g, r[2]) for g, r in outs if r[0]]))
        m.hset(alt, it.obj, (st, lift1(i, lambda x: x + 1)))
    fr.regs[ins["r"]] = res
    fr.idx += 1


def i_makechan(m, alt, fr, ins, work):
    n = m.ev(alt, fr, ins["size"])
    if not is_int_conc(n):
        m.concretize(alt, fr, ins["size"], work, range(0, 33))
    obj = m.new_obj(alt, (n, (), False, False), disc=n)
    fr.regs[ins["r"]] = Chan(obj)
    fr.idx += 1


# ---------------------------------------------------------------------- calls
def i_call(m, alt, fr, ins, work):
    call = ins["call"]
    if call["mode"] == "builtin":
        return do_builtin(m, alt, fr, ins, call, work)
    name, args, fv = m.resolve_callee(alt, fr, call, work)
    return m.dispatch_call(alt, fr, ins, name, args, fv, work)


def dispatch_call(m, alt, fr, ins, name, args, fv, work):
    if type(name) is str and name.endswith(".init") and not name.startswith("("):
        # package initialisers: only the packages the scenario names are initialised
        pkg = name[:-5]
        if pkg not in m.init_allowed or pkg in m.init_done:
            fr.idx += 1
            return None
        m.init_done.add(pkg)
    ov = m.overrides.get(name) if type(name) is str else None
    if ov is not None:
        name = ov
    intr = m.intrinsics.get(name)
    if intr is None and type(name) is str:
        base = name.rsplit(".", 1)[-1]
        if base.startswith("verifPush"):
            intr = m.intrinsics.get("$verifPush")
        elif base.startswith("verif"):
            intr = m.intrinsics.get("$" + base)
    if intr is not None:
        vis, f = intr
        if vis and not alt.resume:
            qv = m.quiet.get(name)
            if qv is not None and qv(m, alt, args):
                vis = False
            elif m.sequential and name not in ("$verifMerge", "$verifQuiesce") and not (type(name) is str and name.endswith(("verifMerge", "verifQuiesce"))):
                # single-threaded scenario: a synchronisation operation that cannot block is an ordinary instruction
                en = m.enabled.get(name)
                if en is None or en(m, alt, args) is True:
                    vis = False
        if vis:
            if not alt.resume:
                alt.info = (name, args)
                return PARK
            alt.resume = False
        try:
            r = f(m, alt, fr, ins, list(args) + list(fv), work)
        except _NeedSplitArg as e:
            call = ins["call"]
            ops = ([call["recv"]] if call["mode"] == "invoke" else []) + list(call["args"])
            m.split_reg(alt, fr, ops[e.i], work)
            raise
        if r is PARK or r is DEAD:
            return r
        if r is _PUSHED:
            return None
        if ins is not None and "r" in ins:
            fr.regs[ins["r"]] = r
        fr.idx += 1
        return None
    if type(name) is not str:
        raise Unsupported("no model for %r" % (name,))
    m.push_call(alt, name, args, fv)
    return None


Machine.dispatch_call = dispatch_call
_PUSHED = _Sentinel("PUSHED")


def invoke_deferred_norm(m, alt, fr, d):
    """run one deferred call from RunDefers (normal return path)"""
    if d[0] == "builtin":
        _, bname, args, call = d
        exec_builtin(m, alt, fr, None, bname, args, call.get("argt", []), None)
        return
    _, name, args, fv = d
    ov = m.overrides.get(name) if type(name) is str else None
    if ov is not None:
        name = ov
    intr = m.intrinsics.get(name)
    if intr is not None:
        vis, f = intr
        # deferred intrinsic (Unlock, Done, close...): executed as its own (visible) operation
        if vis and not alt.resume:
            qv = m.quiet.get(name)
            if qv is not None and qv(m, alt, args):
                vis = False
            elif m.sequential:
                en = m.enabled.get(name)
                if en is None or en(m, alt, args) is True:
                    vis = False
        if vis:
            if not alt.resume:
                fr.defers.append(d)
                alt.info = (name, args)
                return PARK_DEFER
            alt.resume = False
        f(m, alt, fr, None, args, None)
        return
    nf = m.push_call(alt, name, args, fv)
    nf.tag = "deferred"


PARK_DEFER = _Sentinel("PARK_DEFER")


def i_rundefers2(m, alt, fr, ins, work):
    if fr.defers:
        d = fr.defers.pop()
        r = invoke_deferred_norm(m, alt, fr, d)
        if r is PARK_DEFER:
            return PARK
        return None
    fr.idx += 1


def invoke_deferred_unwind(m, alt, fr, d):
    """deferred call while panicking"""
    if d[0] == "builtin":
        _, bname, args, call = d
        exec_builtin(m, alt, fr, None, bname, args, call.get("argt", []), None)
        m.unwind(alt)
        return
    _, name, args, fv = d
    intr = m.intrinsics.get(m.overrides.get(name, name) if type(name) is str else name)
    if intr is not None:
        intr[1](m, alt, fr, None, args, None)
        m.unwind(alt)
        return
    nf = m.push_call(alt, name, args, fv)
    nf.tag = "deferred"


Machine.invoke_deferred = lambda m, alt, fr, d: invoke_deferred_unwind(m, alt, fr, d)
Machine.invoke_deferred_norm = invoke_deferred_norm


def slice_elems(m, alt, s):
    if type(s.len) is not int:
        raise Unsupported("elements of a slice with symbolic length")
    if s.obj is None or s.len == 0:
        return ()
    arr = nav(m.hget(alt, s.obj), s.path)
    if type(arr) is Union:
        raise Unsupported("union backing array")
    return arr[s.off:s.off + s.len]


def exec_builtin(m, alt, fr, ins, bname, args, argt, work):
    pos = ins["pos"] if ins else ""
    if bname == "len" or bname == "cap":
        x = args[0]

        def ln(v):
            if type(v) is Slice:
                return v.len if bname == "len" else v.cap
            if type(v) is str:
                return len(v.encode("utf-8"))
            if type(v) is tuple:
                return len(v)
            if v is None:
                return 0
            if type(v) is MapRef:
                st = m.hget(alt, v.obj)
                return lift1(st, lambda e: len(e))
            if type(v) is Chan:
                st = m.hget(alt, v.obj)
                if bname == "cap":
                    return st[0]
                return lift1(st[1], lambda b: len(b))
            if type(v) is Ptr:  # pointer to array
                return m.T(m.T(argt[0])["elem"])["len"]
            raise Unsupported("len of %r" % (v,))
        return lift1(x, ln)
    if bname == "append":
        s, t = args
        if type(s) is Union or type(t) is Union:
            raise _NeedSplit(0 if type(s) is Union else 1)
        if type(s) is Slice and type(s.len) is not int:
            raise _NeedLen(0)
        if type(t) is Slice and type(t.len) is not int:
            raise _NeedLen(1)
        if type(t) is str:
            extra = tuple(t.encode("utf-8"))
        else:
            extra = slice_elems(m, alt, t)
        if not extra:
            return s
        n = s.len + len(extra)
        if s.obj is not None and n <= s.cap:
            arr = nav(m.hget(alt, s.obj), s.path)
            arr = arr[:s.off + s.len] + tuple(extra) + arr[s.off + n:]
            old = m.hget(alt, s.obj)
            m.hset(alt, s.obj, upd(old, s.path, arr))
            return Slice(s.obj, s.path, s.off, n, s.cap)
        ncap = n if s.cap == 0 else max(2 * s.cap, n)
        et = m.T(argt[0])["elem"]
        z = m.zero(et)
        data = slice_elems(m, alt, s) + tuple(extra) + tuple(z for _ in range(ncap - n))
        obj = m.new_obj(alt, data, disc=ncap)
        return Slice(obj, (), 0, n, ncap)
    if bname == "copy":
        d, s = args
        if type(d) is Union or type(s) is Union:
            raise _NeedSplit(0 if type(d) is Union else 1)
        if type(d) is Slice and type(d.len) is not int:
            raise _NeedLen(0)
        if type(s) is Slice and type(s.len) is not int:
            raise _NeedLen(1)
        src = tuple(s.encode("utf-8")) if type(s) is str else slice_elems(m, alt, s)
        n = min(d.len, len(src))
        if n > 0:
            arr = nav(m.hget(alt, d.obj), d.path)
            arr = arr[:d.off] + tuple(src[:n]) + arr[d.off + n:]
            m.hset(alt, d.obj, upd(m.hget(alt, d.obj), d.path, arr))
        return n
    if bname == "delete":
        map_delete(m, alt, args[0], args[1])
        return None
    if bname == "recover":
        # only meaningful inside a deferred call while panicking
        if alt.panic is not None and len(alt.frames) >= 2 and alt.frames[-1].tag == "deferred":
            v = alt.panic[0]
            alt.panic = None
            if type(v) is not Iface and v is not None:
                v = Iface("$panic", v)
            return v
        return None
    if bname in ("print", "println"):
        return None
    if bname == "close":
        # only reached from deferred calls (a direct close is a scheduling point of its own)
        return m.intrinsics["$close"][1](m, alt, fr, ins, args, work)
    if bname == "min" or bname == "max":
        ii = m.intinfo(argt[0])
        r = args[0]
        for a in args[1:]:
            c = int_binop(m, "<" if bname == "min" else ">", a, r, *ii)
            r = merge(c, a, r)
        return r
    raise Unsupported("builtin " + bname)


class _NeedSplit(Exception):
    def __init__(self, i):
        self.i = i


class _NeedLen(Exception):
    def __init__(self, i):
        self.i = i


class _NeedSplitArg(Exception):
    """an intrinsic needs argument i narrowed to one union alternative"""
    def __init__(self, i):
        self.i = i


def do_builtin(m, alt, fr, ins, call, work):
    bname = call["fn"]
    args = [m.ev(alt, fr, a) for a in call["args"]]
    if bname == "close":
        return m.dispatch_call(alt, fr, ins, "$close", args, (), work)
    try:
        r = exec_builtin(m, alt, fr, ins, bname, args, call.get("argt", []), work)
    except _NeedSplit as e:
        m.split_reg(alt, fr, call["args"][e.i], work)
        raise
    except _NeedLen as e:
        m.split_len(alt, fr, call["args"][e.i], work)
        raise
    if "r" in ins:
        fr.regs[ins["r"]] = r
    fr.idx += 1


def i_go(m, alt, fr, ins, work):
    call = ins["call"]
    if call["mode"] == "builtin":
        raise Unsupported("go builtin")
    name, args, fv = m.resolve_callee(alt, fr, call, work)
    if m.sequential:
        raise Unsupported("a scenario declared sequential started a goroutine")
    site = ("go", fr.fn.name, fr.blk, fr.idx)
    n = alt.nalloc.get(site, 0) + 1
    alt.nalloc[site] = n
    for pat, lim in m.spawn_limits.items():
        if pat in fr.fn.name and n > lim:
            # stated bound: this goroutine-spawning loop (a re-queue / retry path) is followed at most lim times
            m.stats["cut_spawns"] = m.stats.get("cut_spawns", 0) + 1
            m.cuts.add("go statement in %s executed more than %d times on one path" % (fr.fn.name, lim))
            m.add_constraint(NOT(alt.guard))   # an assumption: such runs are outside the bound
            return DEAD
    alt.nspawn += 1
    key = (alt.thread.tid, site, n)
    th = m.thread_by_key.get(key)
    if th is None:
        th = Thread(len(m.threads), "%s/%d" % (alt.thread.name, len([k for k in m.thread_by_key if k[0] == alt.thread.tid]) + 1))
        th.fname = name if type(name) is str else repr(name)
        m.threads.append(th)
        m.thread_by_key[key] = th
    th.spawn_guard = OR(th.spawn_guard, alt.guard)
    m.pending_spawns.append((th, alt, name, args, fv, alt.guard))   # the guard at the `go` statement (the spawner may branch afterwards)
    fr.idx += 1


def i_unsupported(m, alt, fr, ins, work):
    raise Unsupported("instruction %s in %s" % (ins.get("what"), fr.fn.name))


# ---------------------------------------------------------------------- channels (visible operations)
def chan_state(m, alt, ch):
    return m.hget(alt, ch.obj)


def handoff_free(m, alt):
    return True


def slot_full(m, alt, ch):
    """unbuffered channel holding a value that a sender has put and nobody has taken yet"""
    if ch is None:
        return False
    cap, buf, closed, busy = chan_state(m, alt, ch)
    if cap != 0:
        return False
    return OR(*[g for g, b in alts_of(buf) if len(b) > 0])


def recv_ready(m, alt, ch):
    """formula: a receive on plain channel ch can complete now"""
    if ch is None:
        return False
    cap, buf, closed, busy = chan_state(m, alt, ch)
    nonempty = OR(*[g for g, b in alts_of(buf) if len(b) > 0])
    return OR(nonempty, closed)


def send_ready(m, alt, ch, waiters):
    """buffered: room (or closed -> panics); unbuffered: phase 1 of the rendezvous (put) needs a parked
    receiver and no other sender in flight"""
    if ch is None:
        return False
    cap, buf, closed, busy = chan_state(m, alt, ch)
    if cap == 0:
        empty = OR(*[g for g, b in alts_of(buf) if len(b) == 0])
        return OR(closed, AND(empty, NOT(busy), waiters(ch)))
    room = OR(*[g for g, b in alts_of(buf) if len(b) < cap])
    return OR(closed, room)


def ack_ready(m, alt, ch):
    cap, buf, closed, busy = chan_state(m, alt, ch)
    return OR(*[g for g, b in alts_of(buf) if len(b) == 0])


def do_recv(m, alt, ch, zero):
    """perform the receive on plain channel ch; returns (value, ok)"""
    cap, buf, closed, busy = chan_state(m, alt, ch)
    outs = []
    nb = []
    for g, b in alts_of(buf):
        if len(b) > 0:
            outs.append((g, (b[0], True)))
            nb.append((g, b[1:]))
        else:
            outs.append((g, (zero, False)))
            nb.append((g, b))
    r = mk_union(outs)
    if type(r) is Union:
        val = mk_union([(g, x[0]) for g, x in r.alts])
        ok = OR(*[g for g, x in r.alts if x[1]])
    else:
        val, ok = r
    m.hset(alt, ch.obj, (cap, mk_union(nb), closed, busy))
    return val, ok


def do_send(m, alt, ch, v, pos):
    """returns True when the sender has to wait for the receiver (unbuffered: phase 2)"""
    cap, buf, closed, busy = chan_state(m, alt, ch)
    if closed is True:
        m.do_panic(alt, Opaque("send on closed channel"), pos)
        raise _Panicked()
    if closed is not False:
        m.sym_panic(alt, closed, "send on closed channel", pos)
    nb = mk_union([(g, b + (v,)) for g, b in alts_of(buf)])
    m.hset(alt, ch.obj, (cap, nb, closed, True if cap == 0 else busy))
    return cap == 0


def do_ack(m, alt, ch):
    cap, buf, closed, busy = chan_state(m, alt, ch)
    m.hset(alt, ch.obj, (cap, buf, closed, False))


def _seq_ready(m, alt, fr, ins, chan_op, send):
    """single-threaded scenario: a channel operation that can certainly complete at once needs no scheduling point"""
    ch = m.ev(alt, fr, chan_op)
    if type(ch) is Union or ch is None:
        return False
    cap, buf, closed, busy = chan_state(m, alt, ch)
    if type(buf) is Union or closed is not False:
        return False
    if send:
        return cap > 0 and len(buf) < cap
    return len(buf) > 0


def i_send(m, alt, fr, ins, work):
    if not alt.resume and m.sequential and alt.ack is None and _seq_ready(m, alt, fr, ins, ins["chan"], True):
        alt.resume = True
    if not alt.resume:
        alt.info = None
        return PARK
    alt.resume = False
    if alt.ack is not None:
        do_ack(m, alt, alt.ack)
        alt.ack = None
        fr.idx += 1
        return
    ch = m.ev(alt, fr, ins["chan"])
    if type(ch) is Union:
        alt.resume = True
        m.split_reg(alt, fr, ins["chan"], work)
    v = m.ev(alt, fr, ins["x"])
    if do_send(m, alt, ch, v, ins["pos"]):
        alt.ack = ch
        return PARK
    fr.idx += 1


def i_recv(m, alt, fr, ins, work):
    if not alt.resume and m.sequential and _seq_ready(m, alt, fr, ins, ins["x"], False):
        alt.resume = True
    if not alt.resume:
        alt.info = None
        return PARK
    alt.resume = False
    ch = m.ev(alt, fr, ins["x"])
    if type(ch) is Union:
        alt.resume = True
        m.split_reg(alt, fr, ins["x"], work)
    et = m.T(ins["xt"])["elem"]
    val, ok = do_recv(m, alt, ch, m.zero(et))
    fr.regs[ins["r"]] = (val, ok) if ins["commaok"] else val
    fr.idx += 1


def i_select(m, alt, fr, ins, work):
    """alt.opt selects the case (index) or -1 for default; set by the scheduler"""
    if not alt.resume:
        alt.info = None
        return PARK
    alt.resume = False
    if alt.ack is not None:
        do_ack(m, alt, alt.ack)
        alt.ack = None
        fr.regs[ins["r"]] = alt.pending
        alt.pending = None
        fr.idx += 1
        return
    states = ins["states"]
    i = alt.opt
    alt.opt = None
    nrecv = sum(1 for s in states if s["dir"] == 2)
    res = [i, False] + [None] * 0
    recvs = []
    for j, s in enumerate(states):
        if s["dir"] == 2:
            recvs.append(m.zero(s["et"]))
    if i >= 0:
        s = states[i]
        ch = m.ev(alt, fr, s["chan"])
        if type(ch) is Union:
            alt.resume = True
            alt.opt = i
            m.split_reg(alt, fr, s["chan"], work)
        if s["dir"] == 1:
            if do_send(m, alt, ch, m.ev(alt, fr, s["send"]), ins["pos"]):
                alt.ack = ch
                alt.pending = tuple(res + recvs)
                return PARK
        else:
            val, ok = do_recv(m, alt, ch, m.zero(s["et"]))
            k = sum(1 for t in states[:i] if t["dir"] == 2)
            recvs[k] = val
            res[1] = ok
    fr.regs[ins["r"]] = tuple(res + recvs)
    fr.idx += 1


_DISPATCH = {
    "Alloc": i_alloc, "BinOp": i_binop, "UnOp": i_unop, "Phi": i_phi, "Jump": i_jump, "If": i_if,
    "Return": i_return, "RunDefers": i_rundefers2, "Defer": i_defer, "Panic": i_panic, "Extract": i_extract,
    "Field": i_field, "FieldAddr": i_fieldaddr, "IndexAddr": i_indexaddr, "Index": i_index, "Store": i_store,
    "MakeClosure": i_makeclosure, "MakeInterface": i_makeinterface, "ChangeInterface": i_changeinterface,
    "ChangeType": i_changetype, "Convert": i_convert, "TypeAssert": i_typeassert, "MakeSlice": i_makeslice,
    "Slice": i_slice, "MakeMap": i_makemap, "Lookup": i_lookup, "MapUpdate": i_mapupdate, "Range": i_range,
    "Next": i_next, "MakeChan": i_makechan, "Call": i_call, "Go": i_go, "Send": i_send, "Select": i_select,
    "Unsupported": i_unsupported,
}
