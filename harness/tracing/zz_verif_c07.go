package tracing

import (
	"context"
)

// C07 (tracer side): an inner tracer relayed into an outer tracer (what a sub-process / a process set builds), cancelled
// while a registered sender of the inner tracer still has traces to send.  Everything must wind down: every Send returns,
// both tracers' goroutines exit (Done closed), the relay goroutine exits (it releases its sender handle on the outer tracer,
// without which the outer tracer never terminates).  Real NewTracer, tracer.run, NewRelay, Send, RegisterSender, Unsubscribe.
// Stand-in (stated bound): Subscribe hands out a channel of capacity 1 instead of 10, so that "more traces than the relay's
// subscription holds" is reached with 2 traces instead of 11.

func verifSubscribe1(t *tracer) chan ITrace { return t.SubscribeChannel(make(chan ITrace, 1)) }

func verifC07Relay(n int, cancelFirst, withRef bool) {
	ctx, cancel := context.WithCancel(context.Background())
	out := NewTracer(ctx)
	in := NewTracer(ctx)
	var ref chan ITrace
	if withRef {
		ref = out.SubscribeChannel(make(chan ITrace, 4))
	}
	NewRelay(ctx, in, out, func(t ITrace) []ITrace { return []ITrace{t} })
	h := in.RegisterSender()
	var sent int64
	if cancelFirst {
		cancel()
	} else {
		go func() { cancel() }()
	}
	go func() {
		for q := 0; q < n; q++ {
			in.Send(verifTrace{sender: 0, seq: q})
			verifAdd(&sent, 1)
		}
		h.Done()
	}()
	verifQuiesce()
	verifReach("quiescent")
	verifAssert(verifGet(&sent) == int64(n), "every Send of a registered sender returns after cancellation")
	inDone, outDone := false, false
	select {
	case <-in.Done():
		inDone = true
	default:
	}
	select {
	case <-out.Done():
		outDone = true
	default:
	}
	verifAssert(inDone, "after cancellation and the last sender's Done the inner tracer's goroutine has exited")
	verifAssert(outDone, "after cancellation the relay has released its sender handle and the outer tracer's goroutine has exited")
	got := 0
	for withRef {
		tr, ok := <-ref
		if !ok {
			break
		}
		verifAssert(verifTag(tr) == got, "relayed traces keep their order")
		got++
	}
	verifAssert(!withRef || got == n, "traces sent by a registered sender before it reports Done are relayed even after cancellation")
}

func VerifC07_Relay_CancelFirst_2()     { verifC07Relay(2, true, false) }
func VerifC07_Relay_CancelFirst_2_Ref() { verifC07Relay(2, true, true) }
func VerifC07_Relay_Anywhere_2()        { verifC07Relay(2, false, false) }
func VerifC07_Relay_Anywhere_3()        { verifC07Relay(3, false, true) }

// the same with the outer tracer replaced by a recording stand-in (Send appends, RegisterSender counts): only the inner
// tracer and the relay goroutine are real, which keeps the schedule short enough to close
type verifOut struct {
	got     [4]int64
	n       int64
	senders int64
	done    chan struct{}
}
type verifOutHandle struct{ o *verifOut }

func (h verifOutHandle) Done()                                 { h.o.senders-- }
func (o *verifOut) Subscribe() chan ITrace                     { return nil }
func (o *verifOut) SubscribeChannel(c chan ITrace) chan ITrace { return c }
func (o *verifOut) Unsubscribe(chan ITrace)                    {}
func (o *verifOut) Send(t ITrace) {
	o.got[o.n] = int64(verifTag(t))
	o.n++
}
func (o *verifOut) RegisterSender() ISenderHandle { o.senders++; return verifOutHandle{o} }
func (o *verifOut) Done() chan struct{}           { return o.done }

func verifC07RelayStubOut(n int, cancelFirst bool) {
	ctx, cancel := context.WithCancel(context.Background())
	out := &verifOut{done: make(chan struct{})}
	in := NewTracer(ctx)
	NewRelay(ctx, in, out, func(t ITrace) []ITrace { return []ITrace{t} })
	h := in.RegisterSender()
	var sent int64
	if cancelFirst {
		cancel()
	} else {
		go func() { cancel() }()
	}
	go func() {
		for q := 0; q < n; q++ {
			in.Send(verifTrace{sender: 0, seq: q})
			verifAdd(&sent, 1)
		}
		h.Done()
	}()
	verifQuiesce()
	verifReach("quiescent")
	verifAssert(verifGet(&sent) == int64(n), "every Send of a registered sender returns after cancellation")
	inDone := false
	select {
	case <-in.Done():
		inDone = true
	default:
	}
	verifAssert(inDone, "after cancellation and the last sender's Done the inner tracer's goroutine has exited")
	verifAssert(out.senders == 0, "after cancellation the relay has released its sender handle on the outer tracer")
	verifAssert(out.n == int64(n), "traces sent by a registered sender before it reports Done are relayed even after cancellation")
	for q := 0; q < n && q < int(out.n); q++ {
		verifAssert(out.got[q] == int64(q), "relayed traces keep their order")
	}
}

func VerifC07_RelayStubOut_CancelFirst_2() { verifC07RelayStubOut(2, true) }
func VerifC07_RelayStubOut_Anywhere_2()    { verifC07RelayStubOut(2, false) }
