package schema

import "math"

// C19: builder output is well-formed and laid out without overlap.
// RandBytes is replaced by a counter (random ids are assumed pairwise distinct; preset ids are distinct by construction).
var verifRand int

func verifRandBytes(n int) []byte {
	verifRand++
	b := make([]byte, n)
	v := verifRand
	for i := n - 1; i >= 0; i-- {
		b[i] = byte('0' + v%10)
		v /= 10
	}
	return b
}

// insertion sort for the one sort.Slice call of the layout code
func verifSortSlice(x any, less func(i, j int) bool) {
	s := x.([]*processNodeLayout)
	for i := 1; i < len(s); i++ {
		for j := i; j > 0 && less(j, j-1); j-- {
			s[j], s[j-1] = s[j-1], s[j]
		}
	}
}

var verifPreset = []string{"preset_a", "preset_b", "preset_c", "preset_d", "preset_e", "preset_f", "preset_g", "preset_h", "preset_i", "preset_j"}

// verifAddOne adds one activity whose Go type is chosen by the solver among `types` alternatives
func verifAddOne(pb *ProcessBuilder, types int, pos int) string {
	var act ActivityInterface
	switch verifNondetInt("type", 0, types-1) {
	case 0:
		act = &Task{}
	case 1:
		act = &UserTask{}
	case 2:
		act = &ServiceTask{}
	case 3:
		act = &ScriptTask{}
	case 4:
		act = &SubProcess{}
	case 5:
		act = &CallActivity{}
	case 6:
		act = &SendTask{}
	case 7:
		act = &ReceiveTask{}
	case 8:
		act = &ManualTask{}
	default:
		act = &BusinessRuleTask{}
	}
	if verifNondetBool("preset") {
		act.SetId(NewStringP(verifPreset[pos]))
	}
	pb.AddActivity(act)
	idp, _ := act.Id()
	verifAssert(idp != nil && *idp != "", "every added activity has an id")
	if idp == nil {
		return ""
	}
	return *idp
}

func verifNode(p *Process, id string) FlowNodeInterface {
	e, found := p.FindBy(ExactId(id))
	if !found {
		return nil
	}
	n, _ := e.(FlowNodeInterface)
	return n
}

func verifFlow(p *Process, id string) *SequenceFlow {
	for i := range p.SequenceFlowField {
		if fid, ok := p.SequenceFlowField[i].Id(); ok && *fid == id {
			return &p.SequenceFlowField[i]
		}
	}
	return nil
}

// verifCheckChain walks start -> a1 -> ... -> ak -> end through the STORED elements of the produced process
func verifCheckChain(p *Process, ids []string) {
	k := len(ids)
	verifAssert(len(p.StartEventField) == 1 && len(p.EndEventField) == 1, "exactly one start and one end event")
	verifAssert(len(p.SequenceFlowField) == k+1, "one sequence flow per link")
	if len(p.StartEventField) != 1 || len(p.EndEventField) != 1 {
		return
	}
	start := &p.StartEventField[0]
	verifAssert(len(*start.Incomings()) == 0, "the start event has no incoming flow")
	cur := FlowNodeInterface(start)
	seen := map[string]bool{}
	for i := 0; i <= k; i++ {
		cid, _ := cur.Id()
		verifAssert(!seen[*cid], "ids are pairwise distinct")
		seen[*cid] = true
		outs := cur.Outgoings()
		verifAssert(outs != nil && len(*outs) == 1, "every node but the end lists exactly one outgoing flow (stored copy)")
		if outs == nil || len(*outs) != 1 {
			return
		}
		fid := string((*outs)[0])
		verifAssert(!seen[fid], "ids are pairwise distinct")
		seen[fid] = true
		sf := verifFlow(p, fid)
		verifAssert(sf != nil, "a listed outgoing flow exists")
		if sf == nil {
			return
		}
		verifAssert(string(sf.SourceRefField) == *cid, "the flow's source is the node that lists it as outgoing")
		next := verifNode(p, string(sf.TargetRefField))
		verifAssert(next != nil, "the flow's target exists")
		if next == nil {
			return
		}
		ins := next.Incomings()
		verifAssert(ins != nil && len(*ins) == 1 && string((*ins)[0]) == fid, "the target lists the flow as its only incoming flow (stored copy)")
		nid, _ := next.Id()
		if i < k {
			verifAssert(*nid == ids[i], "activities are chained in insertion order")
		} else {
			eid, _ := p.EndEventField[0].Id()
			verifAssert(*nid == *eid, "the chain ends in the end event")
		}
		cur = next
	}
	lastOut := cur.Outgoings()
	verifAssert(lastOut == nil || len(*lastOut) == 0, "the end event has no outgoing flow")
	pid, _ := p.Id()
	verifAssert(pid != nil && !seen[*pid], "ids are pairwise distinct")
}

func verifC19a(k, types int) {
	pb := NewProcessBuilder()
	ids := make([]string, 0, 6)
	for i := 0; i < k; i++ {
		ids = append(ids, verifAddOne(pb, types, i))
	}
	p := pb.Out()
	verifReach("built")
	verifCheckChain(p, ids)
	verifReach("checked")
}

func VerifC19a_K0()     { verifC19a(0, 1) }
func VerifC19a_K1_T10() { verifC19a(1, 10) }
func VerifC19a_K2_T4()  { verifC19a(2, 4) }
func VerifC19a_K3_T2()  { verifC19a(3, 2) }
func VerifC19a_K3_T3()  { verifC19a(3, 3) }
func VerifC19a_K5_T1()  { verifC19a(5, 1) }
func VerifC19a_K4_T2()  { verifC19a(4, 2) }
func VerifC19a_K9_T1()  { verifC19a(9, 1) }

// ---------------------------------------------------------------------------------------------
// C19.b layout
var verifCfgs = []AutoLayoutConfig{
	{StartX: 160, StartY: 96, ColumnGap: 180, RowGap: 120, ProcessGap: 180}, // documented defaults
	{StartX: 0, StartY: 0, ColumnGap: 120, RowGap: 100, ProcessGap: 50},     // gaps exactly the largest node sizes
	{StartX: 40.5, StartY: 50, ColumnGap: 240, RowGap: 100.5, ProcessGap: 60},
	{StartX: 1000, StartY: 2000, ColumnGap: 4096, RowGap: 1024, ProcessGap: 65536},
	{StartX: 10, StartY: 10, ColumnGap: 0, RowGap: 0, ProcessGap: 0}, // degenerate gaps: overlap is allowed, coordinates must still be finite
}

type verifBox struct{ x, y, w, h float64 }

var verifReuseBuilder bool

func verifC19b(procs, k, types int) {
	db := NewDefinitionsBuilder()
	nodes, flows := 0, 0
	shared := NewProcessBuilder()
	for p := 0; p < procs; p++ {
		pb := shared // one builder used again after Out() ...
		if !verifReuseBuilder {
			pb = NewProcessBuilder() // ... or a fresh builder per process
		}
		for i := 0; i < k; i++ {
			verifAddOne(pb, types, i+p*2)
		}
		db.AddProcess(*pb.Out())
		nodes += k + 2
		flows += k + 1
	}
	cfg := verifCfgs[verifNondetInt("cfg", 0, len(verifCfgs)-1)]
	db.AutoLayout(&cfg)
	def := db.Out()
	verifReach("laid out")
	if def.DiagramField == nil || def.DiagramField.BPMNPlane() == nil {
		verifAssert(false, "AutoLayout produces a diagram plane")
		return
	}
	plane := def.DiagramField.BPMNPlane()
	verifAssert(len(plane.BPMNShapeFields) == nodes, "exactly one shape per flow node")
	verifAssert(len(plane.BPMNEdgeFields) == flows, "exactly one edge per sequence flow")
	boxes := map[string]verifBox{}
	list := make([]verifBox, 0, 16)
	for i := range plane.BPMNShapeFields {
		sh := &plane.BPMNShapeFields[i]
		el, ok := sh.BpmnElement()
		b := sh.Bounds()
		verifAssert(ok && b != nil, "every shape names its element and has bounds")
		if !ok || b == nil {
			return
		}
		bx := verifBox{float64(b.X()), float64(b.Y()), float64(b.Width()), float64(b.Height())}
		verifAssert(!math.IsNaN(bx.x) && !math.IsInf(bx.x, 0) && !math.IsNaN(bx.y) && !math.IsInf(bx.y, 0), "coordinates are finite")
		_, dup := boxes[string(*el)]
		verifAssert(!dup, "exactly one shape per flow node")
		boxes[string(*el)] = bx
		list = append(list, bx)
	}
	for i := 0; i < len(list); i++ {
		for j := i + 1; j < len(list); j++ {
			a, b := list[i], list[j]
			overlap := a.x < b.x+b.w && b.x < a.x+a.w && a.y < b.y+b.h && b.y < a.y+a.h
			if cfg.ColumnGap >= 120 && cfg.RowGap >= 100 && cfg.ProcessGap >= 50 {
				verifAssert(!overlap, "no two shapes overlap when the gaps are at least the node sizes")
			}
		}
	}
	for i := range plane.BPMNEdgeFields {
		e := &plane.BPMNEdgeFields[i]
		src, ok1 := e.SourceElement()
		dst, ok2 := e.TargetElement()
		wp := e.WaypointField
		verifAssert(ok1 && ok2 && len(wp) >= 2, "every edge names its ends and has waypoints")
		if !ok1 || !ok2 || len(wp) < 2 {
			return
		}
		s, d := boxes[string(*src)], boxes[string(*dst)]
		x0, y0 := float64(wp[0].X()), float64(wp[0].Y())
		x1, y1 := float64(wp[len(wp)-1].X()), float64(wp[len(wp)-1].Y())
		verifAssert(x0 == s.x+s.w && y0 >= s.y && y0 <= s.y+s.h, "every edge starts on its source shape")
		verifAssert(x1 == d.x && y1 >= d.y && y1 <= d.y+d.h, "every edge ends on its target shape")
	}
	verifReach("checked")
}

func VerifC19b_P1_K2() { verifC19b(1, 2, 3) }
func VerifC19b_P2_K1_Reuse() {
	verifReuseBuilder = true
	verifC19b(2, 1, 2)
}

// the same process builder used for two processes: the second one is as well-formed as the first
func VerifC19a_Reuse_K2() {
	pb := NewProcessBuilder()
	ids1 := []string{verifAddOne(pb, 2, 0)}
	p1 := pb.Out()
	ids2 := []string{verifAddOne(pb, 2, 1), verifAddOne(pb, 2, 2)}
	p2 := pb.Out()
	verifReach("built")
	verifCheckChain(p1, ids1)
	verifCheckChain(p2, ids2)
	verifReach("checked")
}
func VerifC19b_P2_K1() { verifC19b(2, 1, 2) }
func VerifC19b_P3_K1() { verifC19b(3, 1, 1) }
func VerifC19b_P3_K2() { verifC19b(3, 2, 2) }
