"""Runtime model: sync, sync/atomic, context, channels' close, time, small pure library functions,
and the harness primitives (verif*).  Every entry: name -> (visible?, fn(m, alt, fr, ins, args, work)).
`enabled` holds the blocking conditions of the visible ones (default: never blocks)."""
import z3
from vals import *
import interp as I
from interp import Unsupported, PARK, DEAD, _PUSHED, _Panicked, eq_vals, int_binop, _n


def install(m):
    m.enabled = {}
    R = m.intrinsics

    def reg(name, vis=False, en=None):
        def deco(f):
            R[name] = (vis, f)
            if en is not None:
                m.enabled[name] = en
            return f
        return deco

    # ------------------------------------------------------------------ harness primitives
    @reg("$verifNondetBool")
    def nd_bool(m, alt, fr, ins, args, work):
        return m.nondet(args[0], "bool")

    @reg("$verifNondetInt")
    def nd_int(m, alt, fr, ins, args, work):
        name, lo, hi = args
        v = m.nondet(name, "int")
        m.add_constraint(z3.And(v >= lo, v <= hi))
        return v

    @reg("$verifChoice")
    def nd_choice(m, alt, fr, ins, args, work):
        # a small-domain input as a guarded set of concrete values (keeps downstream arithmetic concrete)
        name, lo, hi = args
        v = m.nondet(name, "int")
        m.add_constraint(z3.And(v >= lo, v <= hi))
        return mk_union([(_n(v == i), i) for i in range(lo, hi + 1)])

    CLOCK = ("g", "$clock")
    m.heap[CLOCK] = 0

    @reg("$verifClock", vis=True)
    def nd_clock(m, alt, fr, ins, args, work):
        # a monotonic clock shared by all goroutines: every reading is a scheduling point that reads and writes one
        # global cell (so readings are totally ordered in every schedule) and is >= the previous reading
        name, lo, hi = args
        v = m.nondet(name, "int")
        m.add_constraint(z3.And(v >= lo, v <= hi))
        last = m.hget(alt, CLOCK)
        m.add_constraint(z3.Implies(B(alt.guard), B(m.bool_of(int_binop(m, ">=", v, last, 64, True)))))
        val = mk_union([(_n(v == i), i) for i in range(lo, hi + 1)])
        m.hset(alt, CLOCK, val)
        return val

    @reg("$verifNondetInt64")
    def nd_int64(m, alt, fr, ins, args, work):
        return m.nondet(args[0], "int")

    @reg("$verifNondetInt32")
    def nd_int32(m, alt, fr, ins, args, work):
        return m.nondet(args[0], "int32")

    @reg("$verifNondetUint64")
    def nd_u64(m, alt, fr, ins, args, work):
        return m.nondet(args[0], "int")

    @reg("$verifAssume")
    def assume(m, alt, fr, ins, args, work):
        c = m.bool_of(args[0])
        if c is True:
            return None
        m.add_constraint(z3.Implies(B(alt.guard), B(c)))
        alt.guard = AND(alt.guard, c)
        if alt.guard is False:
            return DEAD
        return None

    @reg("$verifAssert")
    def vassert(m, alt, fr, ins, args, work):
        c = m.bool_of(args[0])
        msg = args[1] if len(args) > 1 else ""
        m.asserted.add(msg)
        if c is True:
            return None
        m.violation("assert", AND(alt.guard, NOT(c)), msg, ins["pos"] if ins else "")
        return None

    @reg("$verifLog")
    def vlog(m, alt, fr, ins, args, work):
        tag = args[0]
        rest = ()
        if len(args) > 1 and type(args[1]) is Slice and type(args[1].len) is int:
            rest = I.slice_elems(m, alt, args[1])
        m.log.append((m.step, len(m.log), alt.guard, alt.thread.tid, tag, rest))
        return None

    @reg("$verifReach")
    def vreach(m, alt, fr, ins, args, work):
        m.reached[args[0]] = OR(m.reached.get(args[0], False), alt.guard)
        return None

    @reg("$verifAnd")
    def vand(m, alt, fr, ins, args, work):
        return AND(m.bool_of(args[0]), m.bool_of(args[1]))

    @reg("$verifOr")
    def vor(m, alt, fr, ins, args, work):
        return OR(m.bool_of(args[0]), m.bool_of(args[1]))

    @reg("$verifImplies")
    def vimp(m, alt, fr, ins, args, work):
        return OR(NOT(m.bool_of(args[0])), m.bool_of(args[1]))

    @reg("$verifSymbolic")
    def vsym(m, alt, fr, ins, args, work):
        return True

    @reg("$verifPush")
    def vpush(m, alt, fr, ins, args, work):
        from interp import BoundExceeded
        chv, v = args
        for g, ch in alts_of(chv):
            if ch is None:
                continue
            cap, buf, closed, busy = m.hget(alt, ch.obj)
            nb = []
            for gb, b in alts_of(buf):
                if len(b) >= cap:
                    if m.feasible(alt.guard, g, gb):
                        raise BoundExceeded("harness queue overflow (capacity %d)" % cap)
                    continue
                nb.append((gb, merge(g, b + (v,), b) if g is not True else b + (v,)))
            m.hset(alt, ch.obj, (cap, mk_union(nb), closed, busy))
        return None

    @reg("$verifAdd")
    def vadd(m, alt, fr, ins, args, work):
        v = m.load(alt, args[0])
        m.store(alt, args[0], int_binop(m, "+", v, args[1], 64, True))
        return None

    @reg("$verifGet")
    def vget(m, alt, fr, ins, args, work):
        return m.load(alt, args[0])

    @reg("$cut")
    def vcut(m, alt, fr, ins, args, work):
        # stated cut: runs that reach this call are outside the claim (recorded in the evidence)
        pos = ins.get("pos") if ins else ""
        m.cuts.add("runs reaching the call at %s (%s) are outside the bound" % (pos, fr.fn.name.rsplit("/", 1)[-1]))
        m.add_constraint(NOT(alt.guard))
        return DEAD

    @reg("$verifGuardedBy")
    def vguarded(m, alt, fr, ins, args, work):
        # verifGuardedBy(target, lock, name): target is a pointer to a cell (or struct field) or a map value
        tgt, lock, name = args
        tv = tgt.v if type(tgt) is Iface else tgt
        lv = lock.v if type(lock) is Iface else lock
        if type(tv) is MapRef:
            m.guarded_maps[tv.obj] = (lv, name)
        elif type(tv) is Ptr:
            m.guarded_cells.append((tv.obj, tv.path, lv, name))
        else:
            raise Unsupported("verifGuardedBy target %r" % (tv,))
        return None

    @reg("$verifAtomicOnly")
    def vatomiconly(m, alt, fr, ins, args, work):
        tgt, name = args
        tv = tgt.v if type(tgt) is Iface else tgt
        if type(tv) is not Ptr:
            raise Unsupported("verifAtomicOnly target %r" % (tv,))
        m.atomic_only[(tv.obj, tv.path)] = name
        return None

    @reg("$verifMerge", vis=True)
    def vmerge(m, alt, fr, ins, args, work):
        return None

    @reg("$verifQuiesce", vis=True)
    def vquiesce(m, alt, fr, ins, args, work):
        return None

    @reg("$verifYield", vis=True)
    def vyield(m, alt, fr, ins, args, work):
        return None

    # ------------------------------------------------------------------ channels: close
    def closed_or_nil(m, alt, chv):
        return True

    @reg("$close", vis=True)
    def vclose(m, alt, fr, ins, args, work):
        pos = ins["pos"] if ins else ""
        for g, ch in alts_of(args[0]):
            if ch is None:
                if g is True:
                    m.do_panic(alt, Opaque("close of nil channel"), pos)
                    raise _Panicked()
                m.sym_panic(alt, g, "close of nil channel", pos)
                continue
            cap, buf, closed, busy = m.hget(alt, ch.obj)
            if g is True and closed is True:
                m.do_panic(alt, Opaque("close of closed channel"), pos)
                raise _Panicked()
            m.sym_panic(alt, AND(g, closed), "close of closed channel", pos)
            m.hset(alt, ch.obj, (cap, buf, OR(closed, g), busy))
        return None

    # ------------------------------------------------------------------ sync.Mutex / RWMutex
    def ld(m, alt, p):
        return m.load(alt, p)

    def mutex_free(m, alt, args):
        return NOT(m.bool_of(lift1(ld(m, alt, args[0]), lambda s: s != 0)))

    @reg("(*sync.Mutex).Lock", vis=True, en=mutex_free)
    def mu_lock(m, alt, fr, ins, args, work):
        m.store(alt, args[0], 1)
        return None

    @reg("(*sync.Mutex).Unlock", vis=True)
    def mu_unlock(m, alt, fr, ins, args, work):
        st = ld(m, alt, args[0])
        bad = m.bool_of(lift1(st, lambda s: s == 0))
        if bad is True:
            m.violation("panic", alt.guard, "sync: unlock of unlocked mutex", ins["pos"] if ins else "")
            return DEAD
        m.sym_panic(alt, bad, "sync: unlock of unlocked mutex", ins["pos"] if ins else "")
        m.store(alt, args[0], 0)
        return None

    @reg("(*sync.Mutex).TryLock", vis=True)
    def mu_trylock(m, alt, fr, ins, args, work):
        free = mutex_free(m, alt, args)
        m.store(alt, args[0], 1, free)
        return free

    def rw_parts(m, alt, p):
        st = ld(m, alt, p)
        w = lift1(st, lambda s: s[0])
        r = lift1(st, lambda s: s[1])
        return w, r

    def rw_wfree(m, alt, args):
        w, r = rw_parts(m, alt, args[0])
        return AND(m.bool_of(lift1(w, lambda x: x == 0)), m.bool_of(lift1(r, lambda x: x == 0)))

    def rw_rfree(m, alt, args):
        w, r = rw_parts(m, alt, args[0])
        return m.bool_of(lift1(w, lambda x: x == 0))

    @reg("(*sync.RWMutex).Lock", vis=True, en=rw_wfree)
    def rw_lock(m, alt, fr, ins, args, work):
        w, r = rw_parts(m, alt, args[0])
        m.store(alt, args[0], (1, r))
        return None

    @reg("(*sync.RWMutex).Unlock", vis=True)
    def rw_unlock(m, alt, fr, ins, args, work):
        w, r = rw_parts(m, alt, args[0])
        bad = m.bool_of(lift1(w, lambda x: x == 0))
        if bad is True:
            m.violation("panic", alt.guard, "sync: Unlock of unlocked RWMutex", ins["pos"] if ins else "")
            return DEAD
        m.sym_panic(alt, bad, "sync: Unlock of unlocked RWMutex", ins["pos"] if ins else "")
        m.store(alt, args[0], (0, r))
        return None

    @reg("(*sync.RWMutex).RLock", vis=True, en=rw_rfree)
    def rw_rlock(m, alt, fr, ins, args, work):
        w, r = rw_parts(m, alt, args[0])
        m.store(alt, args[0], (w, lift1(r, lambda x: x + 1)))
        return None

    @reg("(*sync.RWMutex).RUnlock", vis=True)
    def rw_runlock(m, alt, fr, ins, args, work):
        w, r = rw_parts(m, alt, args[0])
        bad = m.bool_of(lift1(r, lambda x: x <= 0))
        if bad is True:
            m.violation("panic", alt.guard, "sync: RUnlock of unlocked RWMutex", ins["pos"] if ins else "")
            return DEAD
        m.sym_panic(alt, bad, "sync: RUnlock of unlocked RWMutex", ins["pos"] if ins else "")
        m.store(alt, args[0], (w, lift1(r, lambda x: x - 1)))
        return None

    # Scheduling-point reduction (Lipton): releases are left movers - executing them right after the
    # thread's previous operation loses no behaviour; a read-lock taken while no writer holds or can
    # hold the lock in any merged alternative (writer field concretely 0) commutes with everything
    # except a writer's Lock, which still sees the reader count.
    always = lambda m, alt, args: True
    m.quiet["(*sync.Mutex).Unlock"] = always
    m.quiet["(*sync.RWMutex).Unlock"] = always
    m.quiet["(*sync.RWMutex).RUnlock"] = always
    m.quiet["(*sync.WaitGroup).Done"] = always

    def rlock_quiet(m, alt, args):
        p = args[0]
        if type(p) is not Ptr:
            return False
        st = m.load(alt, p)
        return type(st) is tuple and st[0] == 0 and type(st[0]) is int
    m.quiet["(*sync.RWMutex).RLock"] = rlock_quiet

    def once_quiet(m, alt, args):
        # Do on a Once that has certainly completed is a no-op that commutes with everything: no scheduling point
        p = args[0]
        if type(p) is not Ptr:
            return False
        st = m.load(alt, p)
        users = m.once_users.setdefault(p.obj, set())
        users.add(alt.thread.tid)
        if type(st) is int and st == 2:
            return True
        # a Once that this goroutine allocated itself and that no other goroutine has touched (a local `var once sync.Once`,
        # e.g. the tracer's termination Once) cannot block and races with nobody: no scheduling point
        if p.obj[0] == alt.thread.tid and users == {alt.thread.tid} and p.path == ():
            running = m.bool_of(lift1(st, lambda x: x == 1))
            if running is False:
                return True
        if type(st) is int:
            return False
        done = m.bool_of(lift1(st, lambda x: x == 2)) if type(st) is Union else None
        if done is None:
            return False
        return not m.feasible(alt.guard, NOT(done))
    m.once_users = {}
    m.quiet["(*sync.Once).Do"] = once_quiet

    # ------------------------------------------------------------------ sync.WaitGroup
    def wg_add(m, alt, p, n, pos):
        c = ld(m, alt, p)
        nc = lift2(c, n, lambda a, b: a + b)
        bad = m.bool_of(lift1(nc, lambda x: x < 0))
        if bad is True:
            m.violation("panic", alt.guard, "sync: negative WaitGroup counter", pos)
            return DEAD
        m.sym_panic(alt, bad, "sync: negative WaitGroup counter", pos)
        m.store(alt, p, nc)
        return None

    @reg("(*sync.WaitGroup).Add", vis=True)
    def wg_add_(m, alt, fr, ins, args, work):
        n = args[1]
        if not is_int_conc(n):
            raise Unsupported("symbolic WaitGroup.Add delta")
        return wg_add(m, alt, args[0], n, ins["pos"] if ins else "")

    @reg("(*sync.WaitGroup).Done", vis=True)
    def wg_done(m, alt, fr, ins, args, work):
        return wg_add(m, alt, args[0], -1, ins["pos"] if ins else "")

    def wg_zero(m, alt, args):
        return m.bool_of(lift1(ld(m, alt, args[0]), lambda x: x == 0))

    @reg("(*sync.WaitGroup).Wait", vis=True, en=wg_zero)
    def wg_wait(m, alt, fr, ins, args, work):
        return None

    # ------------------------------------------------------------------ sync.Once
    def once_notrunning(m, alt, args):
        return m.bool_of(lift1(ld(m, alt, args[0]), lambda x: x != 1))

    @reg("(*sync.Once).Do", vis=True, en=once_notrunning)
    def once_do(m, alt, fr, ins, args, work):
        p, f = args
        st = ld(m, alt, p)
        done = m.bool_of(lift1(st, lambda x: x == 2))
        if done is True:
            return None
        if done is not False:
            # fork: already done / first caller
            if m.feasible(alt.guard, done):
                b = m.fork_alt(alt, work)
                b.guard = AND(alt.guard, done)
                b.frames[-1].idx += 1
                b.resume = False
            alt.guard = AND(alt.guard, NOT(done))
            if not m.feasible(alt.guard):
                return DEAD
        m.store(alt, p, 1)
        if type(f) is Union:
            raise Unsupported("Once.Do with union closure")
        nf = m.push_call(alt, f.fn, [], f.fv)
        nf.on_return = ("once", p)
        return _PUSHED

    def once_after(m2, alt2, desc, rv, panicking):
        m2.store(alt2, desc[1], 2)
        if not panicking and alt2.frames:
            alt2.frames[-1].idx += 1
    m.on_return_handlers["once"] = once_after

    # ------------------------------------------------------------------ sync/atomic
    def atomic_fns(tname, bits, signed):
        def load(m, alt, fr, ins, args, work):
            return ld(m, alt, args[0])

        def store(m, alt, fr, ins, args, work):
            m.store(alt, args[0], args[1])
            return None

        def add(m, alt, fr, ins, args, work):
            v = ld(m, alt, args[0])
            nv = int_binop(m, "+", v, args[1], bits, signed)
            m.store(alt, args[0], nv)
            return nv

        def swap(m, alt, fr, ins, args, work):
            v = ld(m, alt, args[0])
            m.store(alt, args[0], args[1])
            return v

        def cas(m, alt, fr, ins, args, work):
            v = ld(m, alt, args[0])
            e = eq_vals(m, v, args[1]) if bits is None else m.bool_of(int_binop(m, "==", v, args[1], bits, signed))
            m.store(alt, args[0], args[2], e)
            return e
        return load, store, add, swap, cas

    def atomically(f):
        def g(m, alt, fr, ins, args, work):
            m.in_atomic = True
            try:
                return f(m, alt, fr, ins, args, work)
            finally:
                m.in_atomic = False
        return g

    for tn, fn_suffix, bits, signed in (("Int32", "Int32", 32, True), ("Int64", "Int64", 64, True),
                                        ("Uint32", "Uint32", 32, False), ("Uint64", "Uint64", 64, False)):
        load, store, add, swap, cas = [atomically(f_) for f_ in atomic_fns(tn, bits, signed)]
        R["sync/atomic.Load" + fn_suffix] = (True, load)
        R["sync/atomic.Store" + fn_suffix] = (True, store)
        R["sync/atomic.Add" + fn_suffix] = (True, add)
        R["sync/atomic.Swap" + fn_suffix] = (True, swap)
        R["sync/atomic.CompareAndSwap" + fn_suffix] = (True, cas)
        R["(*sync/atomic.%s).Load" % tn] = (True, load)
        R["(*sync/atomic.%s).Store" % tn] = (True, store)
        R["(*sync/atomic.%s).Add" % tn] = (True, add)
        R["(*sync/atomic.%s).Swap" % tn] = (True, swap)
        R["(*sync/atomic.%s).CompareAndSwap" % tn] = (True, cas)

    def b_load(m, alt, fr, ins, args, work):
        return m.bool_of(ld(m, alt, args[0]))

    def b_store(m, alt, fr, ins, args, work):
        m.store(alt, args[0], args[1])
        return None

    def b_swap(m, alt, fr, ins, args, work):
        v = m.bool_of(ld(m, alt, args[0]))
        m.store(alt, args[0], args[1])
        return v

    def b_cas(m, alt, fr, ins, args, work):
        v = m.bool_of(ld(m, alt, args[0]))
        e = eq_vals(m, v, args[1])
        m.store(alt, args[0], args[2], e)
        return e
    R["(*sync/atomic.Bool).Load"] = (True, atomically(b_load))
    R["(*sync/atomic.Bool).Store"] = (True, atomically(b_store))
    R["(*sync/atomic.Bool).Swap"] = (True, atomically(b_swap))
    R["(*sync/atomic.Bool).CompareAndSwap"] = (True, atomically(b_cas))

    # ------------------------------------------------------------------ context
    # ctx object: (kind, parent, done, err, children, key, val)   kind in bg|cancel|value
    BG = ("g", "$ctx.bg")
    m.heap[BG] = ("bg", None, None, None, (), None, None)

    def ctx_iface(obj):
        return Iface("$ctx", Ptr(obj))

    @reg("context.Background")
    def ctx_bg(m, alt, fr, ins, args, work):
        return ctx_iface(BG)
    R["context.TODO"] = (False, ctx_bg)

    def ctx_obj(m, alt, c):
        if type(c) is Union:
            raise Unsupported("union context")
        if c is None:
            raise Unsupported("nil context")
        return c.v.obj

    def ctx_done_chan(m, alt, obj):
        kind, parent, done, err, children, key, val = m.hget(alt, obj)
        if kind == "value":
            return ctx_done_chan(m, alt, parent)
        return done

    def ctx_err(m, alt, obj):
        kind, parent, done, err, children, key, val = m.hget(alt, obj)
        if kind == "value":
            return ctx_err(m, alt, parent)
        return err

    def cancel_ctx(m, alt, obj, errv, g=True):
        kind, parent, done, err, children, key, val = m.hget(alt, obj)
        if kind == "bg":
            return
        if kind == "value":
            return
        already = NOT(eq_vals(m, err, None))
        do = AND(g, NOT(already))
        if do is False:
            return
        m.hset(alt, obj, (kind, parent, done, merge(do, errv, err), children, key, val))
        cap, buf, closed, busy = m.hget(alt, done.obj)
        m.hset(alt, done.obj, (cap, buf, OR(closed, do), busy))
        for ch in children:
            cancel_ctx(m, alt, ch, errv, do)

    def root_cancelable(m, alt, obj):
        kind, parent, done, err, children, key, val = m.hget(alt, obj)
        if kind == "value":
            return root_cancelable(m, alt, parent)
        return obj

    @reg("context.WithCancel")
    def ctx_withcancel(m, alt, fr, ins, args, work):
        pobj = root_cancelable(m, alt, ctx_obj(m, alt, args[0]))
        dobj = m.new_obj(alt, (0, (), False, False))
        obj = m.new_obj(alt, ("cancel", pobj, Chan(dobj), None, (), None, None))
        pk, pp, pd, perr, pch, pkey, pval = m.hget(alt, pobj)
        if pk == "cancel":
            m.hset(alt, pobj, (pk, pp, pd, perr, pch + (obj,), pkey, pval))
            # parent already cancelled -> child cancelled at once
            pc = NOT(eq_vals(m, perr, None))
            if pc is not False:
                cancel_ctx(m, alt, obj, perr, pc)
        return (ctx_iface(obj), Closure("$cancel", (obj,)))

    @reg("$cancel", vis=True)
    def ctx_cancel(m, alt, fr, ins, args, work):
        # called as closure: free var (appended to args) = ctx object
        cancel_ctx(m, alt, args[-1], m.CANCELED)
        return None

    @reg("context.WithValue")
    def ctx_withvalue(m, alt, fr, ins, args, work):
        pobj = ctx_obj(m, alt, args[0])
        obj = m.new_obj(alt, ("value", pobj, None, None, (), args[1], args[2]))
        return ctx_iface(obj)

    @reg(("$ctx", "Done"))
    def ctx_done(m, alt, fr, ins, args, work):
        return ctx_done_chan(m, alt, args[0].obj)

    @reg(("$ctx", "Err"))
    def ctx_errm(m, alt, fr, ins, args, work):
        return ctx_err(m, alt, args[0].obj)

    @reg(("$ctx", "Value"))
    def ctx_value(m, alt, fr, ins, args, work):
        obj = args[0].obj
        while True:
            kind, parent, done, err, children, key, val = m.hget(alt, obj)
            if kind == "value":
                e = eq_vals(m, key, args[1])
                if e is True:
                    return val
                if e is not False:
                    raise Unsupported("symbolic context key")
            if parent is None:
                return None
            obj = parent

    @reg(("$ctx", "Deadline"))
    def ctx_deadline(m, alt, fr, ins, args, work):
        return (0, False)

    @reg(("$error", "Error"))
    def err_error(m, alt, fr, ins, args, work):
        v = args[0]
        return v if type(v) is str else Opaque(("errstr", repr(v)))

    m.cancel_ctx = cancel_ctx
    m.CANCELED = Iface("$error", "context canceled")
    m.DEADLINE = Iface("$error", "context deadline exceeded")

    def model_implements(tkey, ikey):
        t = m.T(ikey)
        ms = set(t["methods"])
        if tkey == "$ctx":
            return ms <= {"Done", "Err", "Value", "Deadline"}
        if tkey == "$error":
            return ms <= {"Error"}
        if tkey == "$panic":
            return len(ms) == 0
        return len(ms) == 0
    m.model_implements = model_implements

    # ------------------------------------------------------------------ errors / fmt / strings / strconv
    @reg("errors.New")
    def errors_new(m, alt, fr, ins, args, work):
        return Iface("$error", args[0])

    @reg("fmt.Errorf")
    def fmt_errorf(m, alt, fr, ins, args, work):
        return Iface("$error", Opaque(("fmt", args[0] if type(args[0]) is str else "?")))

    @reg("fmt.Sprint")
    def fmt_sprint(m, alt, fr, ins, args, work):
        return Opaque(("fmt", "sprint"))
    R["fmt.Sprintln"] = (False, fmt_sprint)

    @reg("fmt.Println")
    def fmt_println(m, alt, fr, ins, args, work):
        return (0, None)
    R["fmt.Printf"] = (False, fmt_println)
    R["fmt.Print"] = (False, fmt_println)

    def strfn(name, f):
        def g(m, alt, fr, ins, args, work):
            def app(*a):
                for x in a:
                    if type(x) is not str and not is_int_conc(x):
                        raise Unsupported("%s on %r" % (name, x))
                return f(*a)
            if len(args) == 1:
                return lift1(args[0], app)
            if len(args) == 2:
                return lift2(args[0], args[1], app)
            return app(*args)
        R[name] = (False, g)

    GO_SPACE = " \t\n\v\f\r\x85\xa0"
    strfn("strings.TrimSpace", lambda s: s.strip(GO_SPACE))
    strfn("strings.HasPrefix", lambda s, p: s.startswith(p))
    strfn("strings.HasSuffix", lambda s, p: s.endswith(p))
    strfn("strings.TrimSuffix", lambda s, p: s[:-len(p)] if p and s.endswith(p) else s)
    strfn("strings.TrimPrefix", lambda s, p: s[len(p):] if p and s.startswith(p) else s)
    strfn("strings.Contains", lambda s, p: p in s)
    strfn("strings.ToLower", lambda s: s.lower())
    strfn("strings.ToUpper", lambda s: s.upper())
    strfn("strings.Index", lambda s, p: len(s[:s.find(p)].encode()) if p in s else -1)

    def cut(s, sep):
        i = s.find(sep)
        if i < 0:
            return (s, "", False)
        return (s[:i], s[i + len(sep):], True)
    strfn("strings.Cut", cut)
    strfn("strconv.Itoa", lambda i: str(i))

    def fmtint(i, base):
        if base == 10:
            return str(i)
        digs = "0123456789abcdefghijklmnopqrstuvwxyz"
        n = abs(i)
        s = ""
        while True:
            s = digs[n % base] + s
            n //= base
            if n == 0:
                break
        return ("-" if i < 0 else "") + s

    @reg("strconv.FormatInt")
    def strconv_formatint(m, alt, fr, ins, args, work):
        i, base = args
        if is_int_conc(i):
            return fmtint(i, base)
        if type(i) is Union and all(is_int_conc(x) for g, x in i.alts):
            return lift1(i, lambda x: fmtint(x, base))
        return Opaque(("FormatInt", i, base))

    @reg("strconv.FormatUint")
    def strconv_formatuint(m, alt, fr, ins, args, work):
        i, base = args
        if is_int_conc(i):
            return fmtint(i, base)
        if type(i) is Union and all(is_int_conc(x) for g, x in i.alts):
            return lift1(i, lambda x: fmtint(x, base))
        return Opaque(("FormatUint", i, base))

    @reg("strconv.FormatBool")
    def strconv_formatbool(m, alt, fr, ins, args, work):
        b = m.bool_of(args[0])
        if is_bool_conc(b):
            return "true" if b else "false"
        return mk_union([(b, "true"), (NOT(b), "false")])

    # ------------------------------------------------------------------ reflect (types only)
    @reg("reflect.TypeOf")
    def reflect_typeof(m, alt, fr, ins, args, work):
        def f(v):
            if v is None:
                return None
            return Iface("$rtype", v.t)
        return lift1(args[0], f)

    @reg(("$rtype", "Elem"))
    def rtype_elem(m, alt, fr, ins, args, work):
        t = m.T(args[0])
        if "elem" not in t:
            raise Unsupported("reflect: Elem of " + args[0])
        return Iface("$rtype", t["elem"])

    @reg(("$rtype", "Implements"))
    def rtype_implements(m, alt, fr, ins, args, work):
        return m.prog.implements(args[0], args[1].v)

    @reg(("$rtype", "String"))
    def rtype_string(m, alt, fr, ins, args, work):
        return args[0]

    # ------------------------------------------------------------------ reflect.Value / Kind (contracts of the reflect package)
    KIND = {"bool": 1, "int": 2, "int8": 3, "int16": 4, "int32": 5, "int64": 6, "uint": 7, "uint8": 8, "uint16": 9,
            "uint32": 10, "uint64": 11, "uintptr": 12, "float32": 13, "float64": 14, "complex64": 15, "complex128": 16,
            "string": 24, "byte": 8, "rune": 5}
    KIND_NAMES = {1: "bool", 2: "int", 3: "int8", 4: "int16", 5: "int32", 6: "int64", 7: "uint", 8: "uint8", 9: "uint16",
                  10: "uint32", 11: "uint64", 12: "uintptr", 13: "float32", 14: "float64", 17: "array", 18: "chan", 19: "func",
                  20: "interface", 21: "map", 22: "ptr", 23: "slice", 24: "string", 25: "struct", 0: "invalid"}

    def kind_of(tkey):
        if tkey is None:
            return 0
        if tkey.startswith("$"):
            return 22
        t = m.T(tkey)
        k = t["kind"]
        if k == "basic":
            return KIND.get(t["basic"], KIND.get(t.get("cls"), 0))
        return {"pointer": 22, "slice": 23, "array": 17, "map": 21, "struct": 25, "interface": 20, "chan": 18, "func": 19}.get(k, 0)
    m.kind_of = kind_of

    def rv_of(v):
        if v is None:
            return ("rv", None, None)
        if type(v) is Union:
            return lift1(v, rv_of)
        return ("rv", v.t, v.v)

    @reg("reflect.ValueOf")
    def reflect_valueof(m, alt, fr, ins, args, work):
        return rv_of(args[0])

    @reg(("$rtype", "Kind"))
    def rtype_kind(m, alt, fr, ins, args, work):
        return kind_of(args[0])

    def rvfn(name):
        def deco(f):
            def g(m, alt, fr, ins, args, work):
                rv = args[0]
                if type(rv) is Union:
                    raise I._NeedSplitArg(0)
                return f(m, alt, ins, rv, args[1:])
            R["(reflect.Value)." + name] = (False, g)
            return f
        return deco

    @rvfn("Kind")
    def rv_kind(m, alt, ins, rv, rest):
        return kind_of(rv[1])

    @rvfn("IsValid")
    def rv_isvalid(m, alt, ins, rv, rest):
        return rv[1] is not None

    @rvfn("Elem")
    def rv_elem(m, alt, ins, rv, rest):
        k = kind_of(rv[1])
        if k == 22:
            p = rv[2]
            if p is None:
                return ("rv", None, None)
            if type(p) is Union:
                raise Unsupported("reflect Elem of union pointer")
            return ("rv", m.T(rv[1])["elem"], m.load(alt, p))
        if k == 20:
            return rv_of(rv[2])
        m.do_panic(alt, Opaque("reflect: call of reflect.Value.Elem on %s Value" % KIND_NAMES.get(k)), ins["pos"] if ins else "")
        raise _Panicked()

    def rv_need(m, alt, ins, rv, kinds, meth):
        k = kind_of(rv[1])
        if k not in kinds:
            m.do_panic(alt, Opaque("reflect: call of reflect.Value.%s on %s Value" % (meth, KIND_NAMES.get(k))), ins["pos"] if ins else "")
            raise _Panicked()
        return k

    def widen(m, tkey, v, signed):
        ii = m.intinfo(tkey)
        if is_int_conc(v):
            return v
        b = m.bv(v, ii[0])
        if ii[0] == 64:
            return b
        return z3.SignExt(64 - ii[0], b) if ii[1] else z3.ZeroExt(64 - ii[0], b)

    @rvfn("Int")
    def rv_int(m, alt, ins, rv, rest):
        rv_need(m, alt, ins, rv, (2, 3, 4, 5, 6), "Int")
        return widen(m, rv[1], rv[2], True)

    @rvfn("Uint")
    def rv_uint(m, alt, ins, rv, rest):
        rv_need(m, alt, ins, rv, (7, 8, 9, 10, 11, 12), "Uint")
        return widen(m, rv[1], rv[2], False)

    @rvfn("Float")
    def rv_float(m, alt, ins, rv, rest):
        rv_need(m, alt, ins, rv, (13, 14), "Float")
        return rv[2]

    @rvfn("Bool")
    def rv_bool(m, alt, ins, rv, rest):
        rv_need(m, alt, ins, rv, (1,), "Bool")
        return rv[2]

    @rvfn("String")
    def rv_string(m, alt, ins, rv, rest):
        if kind_of(rv[1]) == 24:
            return rv[2]
        return "<%s Value>" % KIND_NAMES.get(kind_of(rv[1]))

    @rvfn("Interface")
    def rv_interface(m, alt, ins, rv, rest):
        if rv[1] is None:
            m.do_panic(alt, Opaque("reflect: call of reflect.Value.Interface on zero Value"), ins["pos"] if ins else "")
            raise _Panicked()
        if m.T(rv[1])["kind"] == "interface":
            return rv[2]
        return Iface(rv[1], rv[2])

    @rvfn("IsNil")
    def rv_isnil(m, alt, ins, rv, rest):
        rv_need(m, alt, ins, rv, (18, 19, 20, 21, 22, 23), "IsNil")
        v = rv[2]
        if type(v) is Slice:
            return v.obj is None
        return v is None

    # ------------------------------------------------------------------ fmt verbs on scalars (contract level)
    def fmt_scalar(m, alt, verb, a):
        """a: interface value (plain).  '%v' of an integer is its decimal form (FormatInt contract), of a float the
        shortest representation that parses back (FormatFloat contract); '%f' has 6 decimals"""
        if a is None:
            return "<nil>" if verb == "%v" else "%!f(<nil>)"
        tk, v = a.t, a.v
        if tk.startswith("$"):
            return Opaque(("fmt", verb, tk))
        t = m.T(tk)
        if t["kind"] != "basic":
            return Opaque(("fmt", verb, tk))
        c = t["cls"]
        if c == "int" and verb == "%v":
            if is_int_conc(v):
                return str(v)
            return Opaque(("FormatInt", widen(m, tk, v, t["signed"]), 10, t["signed"]))
        if c == "float":
            if verb == "%f":
                if isinstance(v, float):
                    return "%f" % v
                return Opaque(("FormatFloatF6", v))
            if isinstance(v, float) and v == int(v) and abs(v) < 1e15:
                return str(int(v))
            return Opaque(("FormatFloat", v))
        if c == "bool" and verb == "%v":
            v = m.bool_of(v)
            if is_bool_conc(v):
                return "true" if v else "false"
            return mk_union([(v, "true"), (NOT(v), "false")])
        if c == "string" and verb == "%v":
            return v
        return Opaque(("fmt", verb, tk))

    def sprintf_model(m, alt, fr, ins, args, work):
        fmt_ = args[0]
        if type(fmt_) is str and fmt_ in ("%v", "%f", "%d", "%s") and type(args[1]) is Slice and type(args[1].len) is int and args[1].len == 1:
            a = I.slice_elems(m, alt, args[1])[0]
            if fmt_ in ("%v", "%s") and type(a) is Iface and not a.t.startswith("$"):
                # fmt honours the Stringer interface: the result is that of the value's String method
                try:
                    sm = m.prog.method(a.t, "String", "")
                except Exception:
                    sm = None
                if sm:
                    f = m.fn(sm)
                    if len(f.params) == 1 and not f.external:
                        m.push_call(alt, sm, [a.v])
                        return _PUSHED
            verb = "%v" if fmt_ in ("%d", "%s") else fmt_
            if type(a) is Union:
                return mk_union([(g, fmt_scalar(m, alt, verb, x)) for g, x in a.alts])
            return fmt_scalar(m, alt, verb, a)
        return Opaque(("fmt", fmt_ if type(fmt_) is str else "?"))
    R["fmt.Sprintf"] = (False, sprintf_model)

    @reg("strconv.FormatFloat")
    def strconv_formatfloat(m, alt, fr, ins, args, work):
        f, fmtc, prec, bits = args
        if not (is_int_conc(fmtc) and is_int_conc(prec)):
            raise Unsupported("symbolic FormatFloat format")
        if prec == -1:
            # shortest representation that parses back to f (documented contract)
            return Opaque(("FormatFloat", f))
        if isinstance(f, float):
            return ("%%.%d%s" % (prec, chr(fmtc))) % f
        return Opaque(("FormatFloatP", f, fmtc, prec))

    @reg("strconv.ParseInt")
    def strconv_parseint(m, alt, fr, ins, args, work):
        s, base, bits = args

        def p(x):
            if type(x) is str:
                import re
                if base == 10 and re.fullmatch(r"[+-]?[0-9]+(_?[0-9]+)*", x) and "_" not in x:
                    v = int(x)
                    if -2 ** 63 <= v < 2 ** 63:
                        return (v, None)
                    return (2 ** 63 - 1 if v > 0 else -2 ** 63, Iface("$error", "strconv.ParseInt: value out of range"))
                return (0, Iface("$error", "strconv.ParseInt: invalid syntax"))
            if type(x) is Opaque and type(x.what) is tuple and x.what[0] == "FormatInt" and x.what[2] == 10:
                v = x.what[1]
                if x.what[3]:
                    return (v, None)
                # formatted as unsigned: parses iff below 2^63
                big = _n(z3.ULT(m.bv(v, 64), z3.BitVecVal(2 ** 63, 64))) if not is_int_conc(v) else v < 2 ** 63
                return (merge(big, v, 2 ** 63 - 1), merge(big, None, Iface("$error", "strconv.ParseInt: value out of range")))
            if type(x) is Opaque:
                return (0, Iface("$error", "strconv.ParseInt: invalid syntax (opaque)"))
            raise Unsupported("ParseInt of %r" % (x,))
        r = lift1(s, p)
        if type(r) is Union:
            return (mk_union([(g, x[0]) for g, x in r.alts]), mk_union([(g, x[1]) for g, x in r.alts]))
        return r

    @reg("strconv.ParseFloat")
    def strconv_parsefloat(m, alt, fr, ins, args, work):
        s = args[0]

        def p(x):
            if type(x) is str:
                try:
                    if x.strip() != x or x == "":
                        raise ValueError
                    return (float(x), None)
                except ValueError:
                    return (0.0, Iface("$error", "strconv.ParseFloat: invalid syntax"))
            if type(x) is Opaque and type(x.what) is tuple and x.what[0] == "FormatFloat":
                return (x.what[1], None)
            if type(x) is Opaque and type(x.what) is tuple and x.what[0] == "FormatInt":
                raise Unsupported("ParseFloat of formatted symbolic int")
            if type(x) is Opaque:
                return (0.0, Iface("$error", "strconv.ParseFloat: invalid syntax (opaque)"))
            raise Unsupported("ParseFloat of %r" % (x,))
        r = lift1(s, p)
        if type(r) is Union:
            return (mk_union([(g, x[0]) for g, x in r.alts]), mk_union([(g, x[1]) for g, x in r.alts]))
        return r

    # ------------------------------------------------------------------ JSON (sonic / encoding/json): uninterpreted
    def json_marshal(m, alt, fr, ins, args, work):
        # uninterpreted text carrying the marshalled value: a one-element byte slice whose element is the payload
        payload = Opaque(("json", json_copy(m, alt, args[0])))   # the text fixes the contents at Marshal time
        obj = m.new_obj(alt, (payload,), disc=1)
        return (Slice(obj, (), 0, 1, 1), None)

    def json_copy(m, alt, v):
        # encoding = snapshot, decoding = fresh containers: a map / slice value is copied (one level; nested containers stay shared)
        if type(v) is Iface and not v.t.startswith("$"):
            x = v.v
            if type(x) is MapRef:
                return Iface(v.t, MapRef(m.new_obj(alt, m.hget(alt, x.obj), disc="json")))
            if type(x) is Slice and x.obj is not None and type(x.len) is int and type(x.off) is int:
                elems = tuple(nav(m.hget(alt, x.obj), x.path)[x.off:x.off + x.len])
                return Iface(v.t, Slice(m.new_obj(alt, elems, disc=("json", x.len)), (), 0, x.len, x.len))
        return v

    def json_payload(m, alt, src):
        if type(src) is Opaque:
            return src
        if type(src) is Slice and src.obj is not None and type(src.len) is int and src.len == 1:
            e = nav(m.hget(alt, src.obj), src.path)[src.off]
            if type(e) is Opaque:
                return e
        return None

    def json_unmarshal(m, alt, fr, ins, args, work):
        pl = json_payload(m, alt, args[0])
        if pl is not None and type(pl.what) is tuple and pl.what[0] == "json":
            # contract Unmarshal(Marshal(v), &x) = v for a target of v's own type (plain structs of scalars/arrays);
            # other targets: nothing is written (content fidelity of arrays/objects is not modelled)
            v, dst = pl.what[1], args[1]
            if type(v) is Iface and type(dst) is Iface and type(dst.v) is Ptr and not v.t.startswith("$") and not dst.t.startswith("$"):
                td = m.T(dst.t)
                if td.get("kind") == "pointer":
                    if td.get("elem") == v.t:
                        m.store(alt, dst.v, json_copy(m, alt, v).v)
                    else:
                        tv = m.T(v.t)
                        if tv.get("kind") == "pointer" and tv.get("elem") == td.get("elem") and type(v.v) is Ptr:
                            m.store(alt, dst.v, m.load(alt, v.v))
            return None
        # text that did not come from Marshal: well-formedness is not modelled -> either outcome
        ok = m.nondet("json.Unmarshal.ok", "bool")
        return mk_union([(ok, None), (NOT(ok), Iface("$error", "json: cannot unmarshal"))])
    for pk in ("github.com/bytedance/sonic", "encoding/json"):
        R[pk + ".Marshal"] = (False, json_marshal)
        R[pk + ".Unmarshal"] = (False, json_unmarshal)

    # ------------------------------------------------------------------ math (concrete floats only)
    import math as _math

    def mathfn(name, f):
        def g(m, alt, fr, ins, args, work):
            def app(*a):
                for x in a:
                    if not isinstance(x, (float, int)) or isinstance(x, bool):
                        raise Unsupported("math.%s on symbolic %r" % (name, x))
                return f(*a)
            if len(args) == 1:
                return lift1(args[0], app)
            return lift2(args[0], args[1], app)
        R["math." + name] = (False, g)

    def go_round(x):
        if _math.isnan(x) or _math.isinf(x):
            return x
        return float(_math.floor(abs(x) + 0.5)) * (1.0 if x >= 0 else -1.0)
    mathfn("Round", go_round)
    mathfn("Abs", lambda x: abs(float(x)))
    mathfn("Floor", lambda x: float(_math.floor(x)) if _math.isfinite(x) else x)
    mathfn("Ceil", lambda x: float(_math.ceil(x)) if _math.isfinite(x) else x)
    mathfn("IsNaN", lambda x: _math.isnan(x))
    mathfn("IsInf", lambda x, sign: _math.isinf(x) and (sign == 0 or (sign > 0) == (x > 0)))
    mathfn("Max", lambda a, b: max(float(a), float(b)))
    mathfn("Min", lambda a, b: min(float(a), float(b)))

    # ------------------------------------------------------------------ math/bits
    @reg("math/bits.OnesCount64")
    def onescount64(m, alt, fr, ins, args, work):
        x = args[0]
        if is_int_conc(x):
            return bin(x & (2 ** 64 - 1)).count("1")
        x = m.bv(x, 64)
        s = z3.BitVecVal(0, 64)
        for i in range(64):
            s = s + z3.ZeroExt(63, z3.Extract(i, i, x))
        return s

    @reg("math/bits.TrailingZeros64")
    def tz64(m, alt, fr, ins, args, work):
        x = args[0]
        if is_int_conc(x):
            x &= 2 ** 64 - 1
            if x == 0:
                return 64
            return (x & -x).bit_length() - 1
        raise Unsupported("symbolic TrailingZeros64")

    @reg("math/bits.Len64")
    def len64(m, alt, fr, ins, args, work):
        x = args[0]
        if is_int_conc(x):
            return (x & (2 ** 64 - 1)).bit_length()
        raise Unsupported("symbolic Len64")

    # ------------------------------------------------------------------ time (time.Time == int64 nanoseconds)
    def tbin(op):
        def f(m, alt, fr, ins, args, work):
            return int_binop(m, op, args[0], args[1], 64, True)
        return f
    R["(time.Time).Add"] = (False, tbin("+"))
    R["(time.Time).Sub"] = (False, tbin("-"))
    R["(time.Time).After"] = (False, lambda m, alt, fr, ins, args, work: m.bool_of(int_binop(m, ">", args[0], args[1], 64, True)))
    R["(time.Time).Before"] = (False, lambda m, alt, fr, ins, args, work: m.bool_of(int_binop(m, "<", args[0], args[1], 64, True)))
    R["(time.Time).Equal"] = (False, lambda m, alt, fr, ins, args, work: m.bool_of(int_binop(m, "==", args[0], args[1], 64, True)))
    R["(time.Time).UnixNano"] = (False, lambda m, alt, fr, ins, args, work: args[0])
    R["(time.Time).IsZero"] = (False, lambda m, alt, fr, ins, args, work: m.bool_of(int_binop(m, "==", args[0], 0, 64, True)))
    R["(*time.Time).After"] = (False, lambda m, alt, fr, ins, args, work: m.bool_of(int_binop(m, ">", m.load(alt, args[0]), args[1], 64, True)))
    R["(*time.Time).Before"] = (False, lambda m, alt, fr, ins, args, work: m.bool_of(int_binop(m, "<", m.load(alt, args[0]), args[1], 64, True)))
    R["(*time.Time).Equal"] = (False, lambda m, alt, fr, ins, args, work: m.bool_of(int_binop(m, "==", m.load(alt, args[0]), args[1], 64, True)))
    R["(*time.Time).UnixNano"] = (False, lambda m, alt, fr, ins, args, work: m.load(alt, args[0]))
    R["time.Unix"] = (False, lambda m, alt, fr, ins, args, work: int_binop(m, "+", int_binop(m, "*", args[0], 1000000000, 64, True), args[1], 64, True))

    @reg("time.Now")
    def time_now(m, alt, fr, ins, args, work):
        v = m.nondet("time.Now", "int")
        last = getattr(m, "last_now", None)
        if last is not None:
            m.add_constraint(v >= last)
        else:
            m.add_constraint(v >= 0)
        m.last_now = v
        return v

    @reg("github.com/muyo/sno/internal.Snotime")
    def snotime(m, alt, fr, ins, args, work):
        # the clock in sno's 4 ms units: arbitrary (progress, standstill and regression are all possible),
        # within the 39 bits of the id's timestamp field
        v = m.nondet("snotime", "int")
        m.add_constraint(z3.ULT(v, z3.BitVecVal(1 << 39, 64)))
        return v

    @reg("sync.NewCond")
    def sync_newcond(m, alt, fr, ins, args, work):
        return Ptr(m.new_obj(alt, ("cond", args[0])))

    @reg("time.ParseDuration")
    def time_parseduration(m, alt, fr, ins, args, work):
        s = args[0]
        if type(s) is not str:
            raise Unsupported("symbolic ParseDuration")
        import re
        if s == "":
            return (0, Iface("$error", "time: invalid duration"))
        units = {"ns": 1, "us": 1000, "ms": 10 ** 6, "s": 10 ** 9, "m": 60 * 10 ** 9, "h": 3600 * 10 ** 9}
        mm = re.fullmatch(r"([+-]?)((?:\d+(?:\.\d*)?(?:ns|us|ms|s|m|h))+)", s)
        if not mm:
            if s == "0":
                return (0, None)
            return (0, Iface("$error", "time: invalid duration"))
        tot = 0
        for num, u in re.findall(r"(\d+(?:\.\d*)?)(ns|us|ms|s|m|h)", mm.group(2)):
            tot += int(float(num) * units[u])
        if mm.group(1) == "-":
            tot = -tot
        return (tot, None)


def nondet(m, name, kind):
    if type(name) is not str:
        raise Unsupported("nondet name must be a constant string")
    n = m.nd_count.get(name, 0)
    m.nd_count[name] = n + 1
    full = "%s#%d" % (name, n)
    if kind == "bool":
        v = z3.Bool("nd!" + full)
    elif kind == "int32":
        v = z3.BitVec("nd!" + full, 32)
    else:
        v = z3.BitVec("nd!" + full, 64)
    m.nondets[full] = v
    return v


I.Machine.nondet = nondet
