package bpmn

import (
	"github.com/olive-io/bpmn/schema"
	"github.com/olive-io/bpmn/v2/pkg/event"
)

// C11: events reach every listening catch event exactly once; delivery never blocks.

func (b *verifB) catchSignal(nid, signal string, in, out []string) {
	e := schema.DefaultIntermediateCatchEvent()
	b.node(&e.FlowNode, nid, in, out)
	d := schema.DefaultSignalEventDefinition()
	q := schema.QName(signal)
	d.SetSignalRef(&q)
	e.SetSignalEventDefinitions([]schema.SignalEventDefinition{d})
	b.p.IntermediateCatchEventField = append(b.p.IntermediateCatchEventField, e)
}

// start -> c1(catch sig1) -> t1 ; a second catch event c2(sig2) -> t2 sits on a branch that is not reached.
var verifC11NoIncoming bool

func verifC11Inst() (*verifInst, *int64, *int64) {
	b := verifNewB("p")
	// no start event in the literal: tokens are placed directly (a start event is an event consumer of its own whose
	// goroutine only runs in a started instance; starting the whole instance triples the depth of the scenario)
	b.flow("f0", "s", "c1", false)
	if verifC11NoIncoming {
		// a catch event without declared incoming flows has the smallest inbox (capacity 1), like a boundary listener
		b.catchSignal("c1", "sig1", nil, []string{"f1"})
	} else {
		b.catchSignal("c1", "sig1", []string{"f0"}, []string{"f1"})
	}
	b.flow("f1", "c1", "t1", false)
	b.task("t1", []string{"f1"}, nil)
	b.catchSignal("c2", "sig2", []string{"g0"}, []string{"g1"})
	b.flow("g0", "s", "c2", false)
	b.flow("g1", "c2", "t2", false)
	b.task("t2", []string{"g1"}, nil)
	inst := verifNewInst(b)
	if inst.proc == nil {
		return nil, nil, nil
	}
	var h1, h2 int64
	inst.sinkAt("t1", &h1)
	inst.sinkAt("t2", &h2)
	return inst, &h1, &h2
}

// verifC11Start starts the instance the documented way and waits until the token is parked at c1
func verifC11Start(inst *verifInst) {
	inst.tokenAt("c1", "f0")
	verifQuiesce()
}

// C11.a: the instance is started (its token waits at c1); n events that do not concern c1 are delivered while the catch
// event c2 has never been reached (its node goroutine was never started): every delivery returns.
func verifC11Unreached(n int) {
	inst, h1, h2 := verifC11Inst()
	if inst == nil {
		return
	}
	var returned int64
	verifC11Start(inst)
	go func() {
		for i := 0; i < n; i++ {
			name := "sig2"
			if verifNondetBool("other") {
				name = "noise"
			}
			inst.proc.ConsumeEvent(event.NewSignalEvent(name))
			verifAdd(&returned, 1)
		}
	}()
	verifQuiesce()
	verifReach("quiescent")
	verifAssert(verifGet(&returned) == int64(n), "delivering an event returns whether or not the catch events have been reached")
	verifAssert(verifGet(h1) == 0 && verifGet(h2) == 0, "events nobody listens for release nobody")
}

func VerifC11a_Unreached_3() { verifC11Unreached(3) }
func VerifC11a_Unreached_4() { verifC11Unreached(4) }

// C11.b: a token waits at c1; a history of events (matching / non-matching, solver's choice) is delivered:
// the token continues exactly once iff a matching event was delivered while it listened; later ones do nothing;
// the unreached c2 never releases anything.
func verifC11Listening(n int) {
	inst, h1, h2 := verifC11Inst()
	if inst == nil {
		return
	}
	verifC11Start(inst) // the token is parked at c1 and the node listens
	var returned, matching int64
	go func() {
		for i := 0; i < n; i++ {
			name := "noise"
			switch verifChoice("ev", 0, 2) {
			case 0:
				name = "sig1"
				verifAdd(&matching, 1)
			case 1:
				name = "sig2"
			}
			inst.proc.ConsumeEvent(event.NewSignalEvent(name))
			verifAdd(&returned, 1)
		}
	}()
	verifQuiesce()
	verifReach("quiescent")
	verifAssert(verifGet(&returned) == int64(n), "delivering an event returns whether or not the catch events have been reached")
	if verifGet(&matching) > 0 {
		verifAssert(verifGet(h1) == 1, "a listening catch event continues exactly once on a matching event")
	} else {
		verifAssert(verifGet(h1) == 0, "a catch event does not react to non-matching events")
	}
	verifAssert(verifGet(h2) == 0, "a catch event that was never reached releases nothing")
}

func VerifC11b_Listening_1() { verifC11Listening(1) }
func VerifC11b_SmallInbox_2() {
	verifC11NoIncoming = true
	verifC11Listening(2)
}
func VerifC11b_Listening_2() { verifC11Listening(2) }
func VerifC11b_Listening_3() { verifC11Listening(3) }

// C11.c: the same catch event is reached a second time (a loop, or a later token): it listens again and continues exactly
// once per delivered matching event, and every delivery returns
func VerifC11c_Revisit() {
	inst, h1, _ := verifC11Inst()
	if inst == nil {
		return
	}
	var returned int64
	verifC11Start(inst)
	inst.proc.ConsumeEvent(event.NewSignalEvent("sig1"))
	verifAdd(&returned, 1)
	verifQuiesce()
	verifAssert(verifGet(h1) == 1, "a listening catch event continues exactly once on a matching event")
	verifC11Start(inst) // a second token reaches the same node
	go func() {
		inst.proc.ConsumeEvent(event.NewSignalEvent("sig1"))
		verifAdd(&returned, 1)
	}()
	verifQuiesce()
	verifReach("quiescent")
	verifAssert(verifGet(&returned) == 2, "delivering an event returns whether or not the catch events have been reached")
	verifAssert(verifGet(h1) == 2, "a catch event that is reached again listens again and continues once per matching event")
}

// C11.d / C06: a token listening at a catch event is withdrawn (what an event-based gateway does to the losing
// alternatives: the flow's termination channel yields true and the flow goroutine exits while the node still holds its
// response channel); the event the withdrawn token was waiting for is delivered afterwards - the delivery returns and has
// no effect.
func VerifC11d_WithdrawnListener() {
	inst, h1, _ := verifC11Inst()
	if inst == nil {
		return
	}
	p := inst.proc
	withdraw := make(chan bool, 1)
	fl := newFlow(inst.defs, inst.nodeAt("c1"), p.subTracer, p.flowNodeMapping, &p.flowWaitGroup, p.idGenerator, nil, p.locator)
	f0 := "f0"
	fl.sequenceFlowId = &f0
	fl.terminate = func(*string) chan bool { return withdraw }
	fl.Start(inst.ctx)
	verifQuiesce() // parked: listening at c1 and watching its termination channel
	withdraw <- true
	verifQuiesce() // the token is gone
	var returned int64
	go func() {
		inst.proc.ConsumeEvent(event.NewSignalEvent("sig1"))
		verifAdd(&returned, 1)
		inst.proc.ConsumeEvent(event.NewSignalEvent("sig1"))
		verifAdd(&returned, 1)
	}()
	verifQuiesce()
	verifReach("quiescent")
	verifAssert(verifGet(&returned) == 2, "delivering an event returns whether or not the catch events have been reached")
	verifAssert(verifGet(h1) == 0, "an event for a withdrawn listener has no effect")
}
