"""A verification session: scratch copy of /repo's *current working tree* + harness files,
one ssaexport server for all workers of the check; removed at exit."""
import atexit, json, os, shutil, subprocess, sys, tempfile, time

HERE = os.path.dirname(os.path.abspath(__file__))
VERIF = os.path.dirname(HERE)
REPO = os.environ.get("VERIF_REPO", "/repo")
sys.path.insert(0, HERE)
import ir

PATTERNS = [".", "./pkg/...", "./model/...", "github.com/olive-io/bpmn/schema", "github.com/bits-and-blooms/bitset",
            "github.com/muyo/sno"]


class Session:
    def __init__(self, harness_dirs=None, keep=False):
        self.t0 = time.time()
        self.tmp = tempfile.mkdtemp(prefix="gobmc-")
        self.src = os.path.join(self.tmp, "repo")
        self.keep = keep
        atexit.register(self.close)
        subprocess.check_call(["rsync", "-a", "--exclude", ".git", REPO + "/", self.src + "/"])
        self.map = json.load(open(os.path.join(VERIF, "harness", "MAP.json")))
        tmpl = open(os.path.join(VERIF, "harness", "prims.go.tmpl")).read()
        self.harness_files = []
        for name, info in self.map.items():
            d = os.path.join(VERIF, "harness", name)
            if not os.path.isdir(d):
                continue
            if harness_dirs is not None and name not in harness_dirs:
                continue
            files = [f for f in sorted(os.listdir(d)) if f.endswith(".go")]
            if not files:
                continue
            dst = os.path.join(self.src, info["dir"])
            for f in files:
                shutil.copy(os.path.join(d, f), os.path.join(dst, f))
                self.harness_files.append(os.path.join(info["dir"], f))
            with open(os.path.join(dst, "zz_verif_prims.go"), "w") as fh:
                fh.write(tmpl.replace("PKGNAME", info["pkg"]))
        self.sock = os.path.join(self.tmp, "ssa.sock")
        self.server = ir.Server(self.src, PATTERNS, self.sock)
        self.load_s = time.time() - self.t0

    def program(self):
        return ir.Program(self.sock)

    def pkgpath(self, name):
        return self.map[name]["path"]

    def close(self):
        if getattr(self, "closed", False):
            return
        self.closed = True
        try:
            self.server.close()
        except Exception:
            pass
        if not self.keep:
            shutil.rmtree(self.tmp, ignore_errors=True)
