package bpmn

import (
	"context"

	"github.com/olive-io/bpmn/schema"
	"github.com/olive-io/bpmn/v2/pkg/id"
)

// C03.a: distributeFlows hands every outgoing flow to exactly one parked token.
func VerifC03a_Distribute() {
	a := verifNondetInt("A", 0, 4)
	f := verifNondetInt("F", 0, 4)
	awaiting := make([]chan IAction, 0, 4)
	for i := 0; i < a; i++ {
		awaiting = append(awaiting, make(chan IAction, 1))
	}
	flows := make([]*SequenceFlow, 0, 4)
	for i := 0; i < f; i++ {
		flows = append(flows, &SequenceFlow{})
	}
	verifReach("built")
	distributeFlows(awaiting, flows)
	// every channel got exactly one action; the handed-out slices partition flows in order
	next := 0
	for i := 0; i < a; i++ {
		verifAssert(len(awaiting[i]) == 1, "every parked token receives exactly one action")
		if len(awaiting[i]) != 1 {
			return
		}
		act := <-awaiting[i]
		switch x := act.(type) {
		case flowAction:
			verifAssert(len(x.sequenceFlows) > 0, "flowAction carries at least one flow")
			verifAssert(len(x.unconditionalFlows) == len(x.sequenceFlows), "all handed flows unconditional")
			for j, sf := range x.sequenceFlows {
				verifAssert(next < f && sf == flows[next], "flows handed out in order, no duplicates")
				verifAssert(x.unconditionalFlows[j] == j, "unconditional index")
				next++
			}
		case completeAction:
		default:
			verifAssert(false, "unexpected action kind")
		}
	}
	if a > 0 {
		verifAssert(next == f, "no outgoing flow lost")
	}
	verifReach("checked")
}

// ---------------------------------------------------------------------------------------------
// C03.c: the real parallel gateway (constructor, run goroutine, NextAction, flowWhenReady,
// distributeFlows) with N upstream tokens arriving in any order, R consecutive activations.

type verifFlowRef struct{ n int }

func (f *verifFlowRef) Id() id.Id                   { return &verifId{n: f.n} }
func (f *verifFlowRef) SequenceFlow() *SequenceFlow { return nil }

var verifOutIds = []string{"o0", "o1", "o2", "o3"}

func verifMkWiring(n, m int) *wiring {
	wr := &wiring{tracer: &verifTracer{done: make(chan struct{})}, flowNodeId: "gw"}
	wr.incoming = make([]SequenceFlow, n)
	wr.outgoing = make([]SequenceFlow, m)
	for j := 0; j < m; j++ {
		sf := schema.DefaultSequenceFlow()
		oid := verifOutIds[j]
		sf.SetId(&oid)
		wr.outgoing[j] = MakeSequenceFlow(&sf, nil)
	}
	return wr
}

var verifLag bool

func verifC03c(n, m, rounds int) {
	ctx := context.Background()
	wr := verifMkWiring(n, m)
	elem := schema.DefaultParallelGateway()
	gw, _ := newParallelGateway(wr, &elem)
	var arrived int64
	var answered [3]int64
	var handed [3][4]int64
	for i := 0; i < n; i++ {
		fl := &verifFlowRef{n: i}
		go func() {
			for r := 0; r < rounds; r++ {
				verifAdd(&arrived, 1)
				resp := gw.NextAction(ctx, fl)
				if verifLag {
					verifYield() // the token may be descheduled between asking and waiting for the answer
				}
				act := <-resp
				verifAssert(verifGet(&arrived) >= int64(n*(r+1)), "nothing is released before a token has arrived on every incoming flow")
				verifAdd(&answered[r], 1)
				switch a := act.(type) {
				case flowAction:
					verifAssert(len(a.unconditionalFlows) == len(a.sequenceFlows), "every flow handed out by a parallel gateway is unconditional")
					for _, idx := range a.unconditionalFlows {
						verifAssert(idx >= 0 && idx < len(a.sequenceFlows), "the unconditional-flow indices refer to the handed-out flows")
					}
					for _, sf := range a.sequenceFlows {
						for j := 0; j < m; j++ {
							if sf == &wr.outgoing[j] {
								verifAdd(&handed[r][j], 1)
							}
						}
					}
				case completeAction:
				default:
					verifAssert(false, "unexpected action kind from the parallel gateway")
				}
			}
		}()
	}
	verifQuiesce()
	verifReach("quiescent")
	for r := 0; r < rounds; r++ {
		verifAssert(verifGet(&answered[r]) == int64(n), "every arrived token is answered once all have arrived (none waits forever)")
		for j := 0; j < m; j++ {
			verifAssert(verifGet(&handed[r][j]) == 1, "each outgoing flow receives exactly one token per activation")
		}
	}
	verifAssert(gw.reportedIncomingFlows == 0 && len(gw.awaitingActions) == 0, "nothing is carried into the next activation")
}

func VerifC03c_2x1_R1_Lag() { verifLag = true; verifC03c(2, 1, 1) }
func VerifC03c_2x2_R1_Lag() { verifLag = true; verifC03c(2, 2, 1) }
func VerifC03c_3x2_R1_Lag() { verifLag = true; verifC03c(3, 2, 1) }
func VerifC03c_1x1_R2()     { verifC03c(1, 1, 2) }
func VerifC03c_2x1_R2()     { verifC03c(2, 1, 2) }
func VerifC03c_1x2_R2()     { verifC03c(1, 2, 2) }
func VerifC03c_2x2_R2()     { verifC03c(2, 2, 2) }
func VerifC03c_3x2_R2()     { verifC03c(3, 2, 2) }
func VerifC03c_2x3_R2()     { verifC03c(2, 3, 2) }
func VerifC03c_3x3_R2()     { verifC03c(3, 3, 2) }
func VerifC03c_3x1_R2()     { verifC03c(3, 1, 2) }
func VerifC03c_1x3_R2()     { verifC03c(1, 3, 2) }
func VerifC03c_4x4_R1()     { verifC03c(4, 4, 1) }
func VerifC03c_4x2_R2()     { verifC03c(4, 2, 2) }
func VerifC03c_2x4_R2()     { verifC03c(2, 4, 2) }
func VerifC03c_3x3_R3()     { verifC03c(3, 3, 3) }
func VerifC03c_4x4_R3()     { verifC03c(4, 4, 3) }

// C03.b: one step of the run loop's counter logic from an arbitrary valid state (inductive):
// reported in 0..N-1 with that many parked tokens; after one more arrival the gateway releases iff
// reported+1 == N and is then back in its initial state.
func VerifC03b_CounterStep() {
	n := verifNondetInt("N", 1, 4)
	rep := verifNondetInt("reported", 0, 3)
	verifAssume(rep < n)
	wr := verifMkWiring(4, 2)
	gw := &parallelGateway{wiring: wr, noOfIncomingFlows: n, reportedIncomingFlows: rep, awaitingActions: make([]chan IAction, 0)}
	chans := make([]chan IAction, 0, 4)
	for i := 0; i < rep; i++ {
		c := make(chan IAction, 1)
		chans = append(chans, c)
		gw.awaitingActions = append(gw.awaitingActions, c)
	}
	last := make(chan IAction, 1)
	chans = append(chans, last)
	verifReach("state built")
	// the nextActionMessage arm of run()
	gw.reportedIncomingFlows++
	gw.awaitingActions = append(gw.awaitingActions, last)
	gw.flowWhenReady()
	if rep+1 == n {
		verifAssert(gw.reportedIncomingFlows == 0 && len(gw.awaitingActions) == 0, "release resets the gateway")
		for i := 0; i <= rep; i++ {
			verifAssert(len(chans[i]) == 1, "release answers every parked token")
		}
	} else {
		verifAssert(gw.reportedIncomingFlows == rep+1 && len(gw.awaitingActions) == rep+1, "no release keeps the arrival parked")
		for i := 0; i <= rep; i++ {
			verifAssert(len(chans[i]) == 0, "nothing is sent before the last arrival")
		}
	}
}
