ROOT = "github.com/olive-io/bpmn/v2"
TR = ROOT + "/pkg/tracing"
# symbolic-run replacements (harness/root/zz_verif_common.go)
STD = {
    "(*%s.flow).executeSequenceFlow" % ROOT: "verifExecSeqFlow",
    TR + ".NewTracer": "verifNewTracer",
    TR + ".NewRelay": "verifNewRelay",
}
