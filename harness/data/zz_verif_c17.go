package data

import "github.com/olive-io/bpmn/schema"

// C17 (reduced claim): lock discipline of the flow data locator - its maps are only touched while the lock that guards
// them is held (the public methods are executed one after the other; the interpreter checks every map access).
func VerifC17_LocatorLocks() {
	f := NewFlowDataLocator()
	verifGuardedBy(f.variables, &f.vmu, "FlowDataLocator.variables")
	verifGuardedBy(f.locators, &f.lmu, "FlowDataLocator.locators")
	verifReach("registered")
	f.SetVariable("x", int64(1))
	_, _ = f.GetVariable("x")
	_, _ = f.GetVariable("absent")
	_ = f.CloneVariables()
	f.PutIItemAwareLocator(LocatorObject, NewDataObjectContainer())
	_, _ = f.FindIItemAwareLocator(LocatorObject)
	_ = f.CloneItems(LocatorObject)
	_ = f.CloneItems("absent")
	// the data object container behind the locator
	oc := NewDataObjectContainer()
	verifGuardedBy(oc.dataObjects, &oc.mu, "ObjectContainer.dataObjects")
	verifGuardedBy(oc.dataObjectsByName, &oc.mu, "ObjectContainer.dataObjectsByName")
	verifGuardedBy(oc.propertiesByName, &oc.mu, "ObjectContainer.propertiesByName")
	c1 := NewContainer(nil)
	c1.Put(schema.NewValue(int64(1)))
	oc.PutItemAwareById("o", c1)
	oc.PutItemAwareByName("n", c1)
	_, _ = oc.FindItemAwareById("o")
	_, _ = oc.FindItemAwareByName("n")
	_ = oc.Clone()
	oc2 := NewDataObjectContainer()
	oc.CloneFor(oc2)
	g := NewFlowDataLocator()
	verifGuardedBy(g.variables, &g.vmu, "FlowDataLocator.variables")
	verifGuardedBy(g.locators, &g.lmu, "FlowDataLocator.locators")
	g.Merge(f)
	verifReach("done")
}
