"""Client of the ssaexport server: lazily fetches go/ssa functions and type descriptors
from the *current* source tree (a scratch copy of /repo + harness files)."""
import json, os, socket, subprocess, sys, time

HERE = os.path.dirname(os.path.abspath(__file__))
EXPORTER = os.path.join(HERE, "ssaexport", "ssaexport")

GOENV = dict(GOFLAGS="-mod=mod", GOPROXY="off", GOSUMDB="off", GOTOOLCHAIN="local", GOWORK="off")


class ExportError(Exception):
    pass


class Server:
    """Owns the exporter process (unix-socket mode); forked workers connect with Program(sock)."""

    def __init__(self, srcdir, patterns, sock):
        self.sock = sock
        env = dict(os.environ)
        env.update(GOENV)
        self.proc = subprocess.Popen([EXPORTER, "-dir", srcdir, "-listen", sock] + list(patterns),
                                     stdin=subprocess.PIPE, stdout=subprocess.PIPE, stderr=subprocess.PIPE,
                                     env=env, cwd=srcdir)
        line = self.proc.stdout.readline()
        if b"ready" not in line:
            err = self.proc.stderr.read().decode(errors="replace")
            raise ExportError("exporter failed to load packages:\n" + err[-4000:])

    def close(self):
        try:
            self.proc.stdin.close()
            self.proc.wait(timeout=5)
        except Exception:
            self.proc.kill()
        try:
            os.remove(self.sock)
        except OSError:
            pass


class Program:
    def __init__(self, sockpath):
        self.sockpath = sockpath
        self.s = None
        self.f = None
        self.funcs = {}
        self.types = {}
        self.methods = {}
        self.impl = {}
        self.requested = []  # names of functions fetched (for evidence)

    def _conn(self):
        if self.s is None or self.pid != os.getpid():
            self.s = socket.socket(socket.AF_UNIX, socket.SOCK_STREAM)
            self.s.connect(self.sockpath)
            self.f = self.s.makefile("rwb")
            self.pid = os.getpid()

    def rpc(self, **req):
        self._conn()
        self.f.write((json.dumps(req) + "\n").encode())
        self.f.flush()
        line = self.f.readline()
        if not line:
            raise ExportError("exporter closed connection")
        return json.loads(line)

    def func(self, name):
        f = self.funcs.get(name)
        if f is None:
            r = self.rpc(cmd="func", name=name)
            if "error" in r:
                raise ExportError(r["error"])
            f = Function(r)
            self.funcs[name] = f
            self.funcs[f.name] = f
            self.requested.append(f.name)
        return f

    def type(self, key):
        t = self.types.get(key)
        if t is None:
            t = self.rpc(cmd="type", key=key)
            if "error" in t:
                raise ExportError(t["error"] + " (" + key + ")")
            self.types[key] = t
        return t

    def typeof(self, name):
        r = self.rpc(cmd="typeof", name=name)
        if "error" in r:
            raise ExportError(r["error"])
        return r["key"]

    def method(self, tkey, name, mpkg=""):
        k = (tkey, name, mpkg)
        m = self.methods.get(k)
        if m is None:
            r = self.rpc(cmd="method", type=tkey, name=name, mpkg=mpkg)
            if "error" in r:
                raise ExportError(r["error"])
            m = r["fn"]
            self.methods[k] = m
        return m

    def implements(self, tkey, ikey):
        k = (tkey, ikey)
        v = self.impl.get(k)
        if v is None:
            r = self.rpc(cmd="implements", type=tkey, iface=ikey)
            if "error" in r:
                raise ExportError(r["error"] + " implements(%s,%s)" % k)
            v = r["v"]
            self.impl[k] = v
        return v

    def globals(self, pkg):
        r = self.rpc(cmd="globals", pkg=pkg)
        if "error" in r:
            raise ExportError(r["error"])
        return r["globals"]


class Function:
    __slots__ = ("name", "pkg", "params", "freevars", "blocks", "external", "recover", "results", "ninstr", "synthetic", "sig")

    def __init__(self, j):
        self.name = j["name"]
        self.pkg = j.get("pkg", "")
        self.params = j["params"]
        self.freevars = j["freevars"]
        self.external = j.get("external", False)
        self.recover = j.get("recover")
        self.results = j["results"]
        self.ninstr = j.get("ninstr", 0)
        self.synthetic = j.get("synthetic", "")
        self.sig = j.get("sig")
        self.blocks = j.get("blocks", [])
