from common import STD
PROPERTY = "C04"
EXPLANATION = ("Real newExclusiveGateway/run/NextAction and the real flow loop (probeAction and flowAction arms, handleSequenceFlow) "
               "for tokens positioned at the gateway of an instance built by the real NewProcess; the truth value of every "
               "condition is a solver variable, downstream nodes are recording sinks, the scheduler is symbolic.")
ASSUMPTIONS = ["expression engines replaced by an oracle returning one symbolic boolean per conditional flow (executeSequenceFlow override)",
               "tracer replaced by the synchronous stub (contract established by C09)",
               "the gateway's re-queue path (report before second request) is followed at most once per probe (stated cut)"]
EO = ["every token takes the first flow whose condition is true"]
SL = {"exclusiveGateway).run": 1}


def sc(n, d, t, tiers, K=110):
    dn = "nodef" if d < 0 else "def%d" % d
    eo = list(EO)
    if d >= 0:
        eo.append("the default flow is taken when no condition is true")
    else:
        eo.append("no effective flow and no default: one error trace per token")
    return dict(name="C04 n=%d %s tokens=%d" % (n, dn, t), entry="VerifC04_n%d_%s_t%d" % (n, dn, t), K=K, reach=["quiescent"],
                overrides=STD, spawn_limits=SL, tiers=tiers, expect_obligations=eo,
                bounds="%d conditional flows (all truth assignments), default %s, %d token(s), all interleavings" % (
                    n, "absent" if d < 0 else "at list position %d" % d, t))


SCENARIOS = [
    sc(1, -1, 1, ("quick", "thorough")),
    sc(2, -1, 1, ("quick", "thorough")),
    sc(2, 0, 1, ("quick", "thorough")),
    sc(2, 1, 1, ("quick", "thorough")),
    sc(2, 2, 1, ("quick", "thorough")),
    sc(3, -1, 1, ("thorough",)),
    sc(3, 1, 1, ("thorough",)),
    sc(3, 3, 1, ("thorough",)),
    sc(1, 1, 2, ("thorough",), K=140),
    sc(2, -1, 2, ("thorough",), K=160),
    sc(2, 2, 2, ("thorough",), K=160),
    sc(4, 2, 1, ("thorough",)),
]
