package bpmn

import (
	"context"
)

// C02: completion is reported iff all start events fired and no token remains.
// Real Process.ceaseFlowMonitor (+ its closure and wait goroutine), WaitUntilComplete (+ helper goroutine), real flow
// goroutines (flow.Start) running into the real end event of an instance built by NewProcess.  The start events' own
// goroutines are stood in for by the harness: it does what StartWith does after Trigger (register the monitor) and
// emits the start event's FlowTrace for every token it creates.

func verifC02Inst(starts int) *verifInst {
	b := verifNewB("p")
	for i := 0; i < starts; i++ {
		b.start(verifTaskNames[i], verifFlowNames[i])
		b.flow(verifFlowNames[i], verifTaskNames[i], "e", false)
	}
	b.end("e", verifFlowNames[:starts]...)
	return verifNewInst(b)
}

// what Process.StartWith does for a start event, minus eventNode.Trigger
func (inst *verifInst) startMonitor() {
	p := inst.proc
	sender := p.tracer.RegisterSender()
	go p.ceaseFlowMonitor(p.subTracer)(inst.ctx, sender)
}

// the token a triggered start event produces: a real flow, here already past the start event
func (inst *verifInst) startToken(i int) {
	inst.tokenAt("e", verifFlowNames[i])
	inst.proc.subTracer.Send(FlowTrace{Source: inst.elem(verifTaskNames[i])})
}

func (inst *verifInst) waiter(ctx context.Context, tokens int, returned *int64, wantTrue bool) {
	ok := inst.proc.WaitUntilComplete(ctx)
	if ok {
		verifAssert(inst.count("done:e") == int64(tokens), "WaitUntilComplete returns true only when every token has been consumed")
	}
	if wantTrue {
		verifAssert(ok, "WaitUntilComplete with a live context returns true")
	}
	verifAdd(returned, 1)
}

func verifC02Basic(tokens, waiters int) {
	inst := verifC02Inst(1)
	if inst.proc == nil {
		return
	}
	inst.startMonitor()
	if tokens == 1 {
		inst.startToken(0)
	} else {
		// a start event with several outgoing flows: its own flow (flow.Start: wait-group count taken before the
		// goroutine, released when the flow ends) sends the FlowTrace and then starts the additional flows, so the
		// count it holds covers the window between the FlowTrace and the siblings' flow.Start
		inst.proc.flowWaitGroup.Add(1)
		inst.proc.subTracer.Send(FlowTrace{Source: inst.elem(verifTaskNames[0])})
		for k := 0; k < tokens; k++ {
			inst.tokenAt("e", verifFlowNames[0])
		}
		inst.proc.flowWaitGroup.Done()
	}
	var returned int64
	for w := 0; w < waiters; w++ {
		go inst.waiter(inst.ctx, tokens, &returned, true)
	}
	verifQuiesce()
	verifReach("quiescent")
	verifAssert(inst.count("done:e") == int64(tokens), "every token reaches the end event")
	verifAssert(inst.ceased == 1, "the cease-flow trace is emitted exactly once after the last token is gone")
	verifAssert(verifGet(&returned) == int64(waiters), "every waiter with a live context returns once the instance is complete")
}

func VerifC02_T1_W1() { verifC02Basic(1, 1) }
func VerifC02_T1_W2() { verifC02Basic(1, 2) }
func VerifC02_T2_W1() { verifC02Basic(2, 1) }

// a waiter whose context expires, followed by a waiter with a live context
func VerifC02_ExpiredThenWait() {
	inst := verifC02Inst(1)
	if inst.proc == nil {
		return
	}
	inst.startMonitor()
	var returned int64
	wctx, wcancel := context.WithCancel(context.Background())
	go inst.waiter(wctx, 1, &returned, false)
	go func() { wcancel() }()
	verifQuiesce() // the first wait has ended one way or the other (no token has been created yet)
	verifAssert(verifGet(&returned) == 1, "a waiter whose context expired returns")
	inst.startToken(0)
	go inst.waiter(inst.ctx, 1, &returned, true)
	verifQuiesce()
	verifReach("quiescent")
	verifAssert(inst.ceased == 1, "the cease-flow trace is emitted exactly once after the last token is gone")
	verifAssert(verifGet(&returned) == 2, "a waiter called after an earlier wait ended by context expiry still returns once the instance is complete")
}

// two start events: StartAll registers the completion monitor once per start event
func VerifC02_TwoStarts() {
	inst := verifC02Inst(2)
	if inst.proc == nil {
		return
	}
	var started, returned int64
	go func() {
		// StartWith per start event: the monitor is registered (subscribes, takes the completion lock), the start event is triggered
		inst.startMonitor()
		inst.startToken(0)
		inst.startMonitor()
		inst.startToken(1)
		verifAdd(&started, 1)
	}()
	verifQuiesce()
	verifAssert(verifGet(&started) == 1, "StartAll returns for a process with two start events")
	go inst.waiter(inst.ctx, 2, &returned, true)
	verifQuiesce()
	verifReach("quiescent")
	verifAssert(verifGet(&returned) == 1, "every waiter with a live context returns once the instance is complete")
	verifAssert(inst.ceased == 1, "the cease-flow trace is emitted exactly once after the last token is gone")
}

// ---- the same with the real StartAll (real start events, Trigger, startEvent.run, flows from start to end)
func verifC02Real(starts, waiters int) {
	inst := verifC02Inst(starts)
	if inst.proc == nil {
		return
	}
	var started, returned int64
	go func() {
		err := inst.proc.StartAll(inst.ctx)
		verifAssert(err == nil, "StartAll succeeds")
		verifAdd(&started, 1)
		for w := 0; w < waiters; w++ {
			go inst.waiter(inst.ctx, starts, &returned, true)
		}
	}()
	verifQuiesce()
	verifReach("quiescent")
	verifAssert(verifGet(&started) == 1, "StartAll returns")
	verifAssert(inst.count("done:e") == int64(starts), "every token reaches the end event")
	verifAssert(inst.ceased == 1, "the cease-flow trace is emitted exactly once after the last token is gone")
	verifAssert(verifGet(&returned) == int64(waiters), "every waiter with a live context returns once the instance is complete")
}

func VerifC02_Real_S1_W1() { verifC02Real(1, 1) }
func VerifC02_Real_S2_W1() { verifC02Real(2, 1) }
