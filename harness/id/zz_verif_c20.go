package id

import (
	json "github.com/bytedance/sonic"
	"github.com/muyo/sno"
)

// C20: generated identifiers never collide.

// two fallback generators created one after the other (the clock may or may not have advanced between the two
// constructor calls), k draws from each: all ids pairwise distinct
func VerifC20a_TwoFallback() {
	g1 := NewFallbackGenerator()
	g2 := NewFallbackGenerator()
	a1 := g1.New().String()
	a2 := g1.New().String()
	b1 := g2.New().String()
	b2 := g2.New().String()
	verifReach("drawn")
	verifAssert(a1 != a2 && b1 != b2, "ids of one fallback generator are pairwise distinct")
	verifAssert(a1 != b1 && a1 != b2 && a2 != b1 && a2 != b2, "ids of two fallback generators created in one program are distinct")
}

// one fallback generator, T goroutines drawing concurrently
func verifC20bConcurrent(threads, draws int) {
	g := NewFallbackGenerator()
	var ids [3][2]string
	for t := 0; t < threads; t++ {
		go func() {
			for d := 0; d < draws; d++ {
				ids[t][d] = g.New().String()
			}
		}()
	}
	verifQuiesce()
	verifReach("quiescent")
	for t := 0; t < threads; t++ {
		for d := 0; d < draws; d++ {
			for t2 := 0; t2 < threads; t2++ {
				for d2 := 0; d2 < draws; d2++ {
					if t2 > t || (t2 == t && d2 > d) {
						verifAssert(ids[t][d] != ids[t2][d2], "concurrent draws from one fallback generator are pairwise distinct")
					}
				}
			}
		}
	}
}

func VerifC20b_T2_D2() { verifC20bConcurrent(2, 2) }
func VerifC20b_T3_D1() { verifC20bConcurrent(3, 1) }
func VerifC20b_T3_D2() { verifC20bConcurrent(3, 2) }

// ---------------------------------------------------------------------------------------------
// sno-backed generator (the engine's default): real SnoGenerator.New -> sno.Generator.New with the
// clock (sno's 4 ms units) as a solver variable per reading.
func verifSnoGen() *SnoGenerator {
	g, err := GetSno().NewIdGenerator(verifCtx(), nil)
	if err != nil {
		verifAssert(false, "sno generator construction failed")
		return nil
	}
	return g.(*SnoGenerator)
}

func verifSnoDraw(g *SnoGenerator) [10]byte { return g.New().(*SnoId).ID }

// one goroutine, three consecutive draws under arbitrary clock behaviour (progress, standstill, regression)
func VerifC20c_Seq3() {
	g := verifSnoGen()
	if g == nil {
		return
	}
	a := verifSnoDraw(g)
	b := verifSnoDraw(g)
	c := verifSnoDraw(g)
	verifReach("drawn")
	verifAssert(a != b && a != c && b != c, "consecutive sno ids of one generator are pairwise distinct")
}

// two generators created in one program
func VerifC20e_TwoSno() {
	g1 := verifSnoGen()
	g2 := verifSnoGen()
	if g1 == nil || g2 == nil {
		return
	}
	a := verifSnoDraw(g1)
	b := verifSnoDraw(g2)
	a2 := verifSnoDraw(g1)
	b2 := verifSnoDraw(g2)
	verifReach("drawn")
	verifAssert(a != b && a != b2 && a2 != b && a2 != b2, "ids of two sno generators created in one program are distinct")
}

// concurrent draws: thread 1 draws once, thread 2 draws twice
func VerifC20d_Conc_1_2() {
	g := verifSnoGen()
	if g == nil {
		return
	}
	var a, b, c [10]byte
	go func() { a = verifSnoDraw(g) }()
	go func() {
		b = verifSnoDraw(g)
		c = verifSnoDraw(g)
	}()
	verifQuiesce()
	verifReach("quiescent")
	verifAssert(a != b && a != c && b != c, "concurrent sno ids of one generator are pairwise distinct")
}

// small-domain clock for the concurrent scenarios: every reading is one of two (thorough: three) adjacent
// time units, chosen by the solver per reading (progress, standstill and regression all occur)
func verifSnotime2() uint64 { return uint64(verifChoice("snotime", 5, 6)) }
func verifSnotime3() uint64 { return uint64(verifChoice("snotime", 5, 7)) }

// the same, but monotonic across all goroutines (no clock regression)
func verifSnotimeMono2() uint64 { return uint64(verifClock("snotime", 5, 6)) }
func verifSnotimeMono3() uint64 { return uint64(verifClock("snotime", 5, 7)) }

// C20.f: a generator restored from a snapshot continues exactly where the snapshot was taken: RestoreIdGenerator
// reproduces partition, bounds, sequence, wall clock high-water mark and drift count (so that the induction of C20.c
// carries over to ids issued before the snapshot).  The snapshot is symbolic, including the state of an exhausted pool
// (sequence beyond the upper bound).  JSON is uninterpreted with the contract Unmarshal(Marshal(v)) = v.
func verifSnotimeFive() uint64 { return 5 }

var verifSeqs = []uint32{2, 3, 40, 41, 45}

func VerifC20f_Restore() {
	snap := sno.GeneratorSnapshot{
		Partition:   sno.Partition{1, 2},
		SequenceMin: 2,
		SequenceMax: 40,
		Sequence:    verifSeqs[verifChoice("seq", 0, len(verifSeqs)-1)],
		Now:         5,
		WallHi:      5,
		WallSafe:    int64(verifChoice("safe", 0, 5)),
		Drifts:      uint32(verifChoice("drifts", 0, 1)),
	}
	data, err := json.Marshal(snap)
	verifAssert(err == nil, "snapshot marshals")
	g, err := GetSno().RestoreIdGenerator(verifCtx(), data, nil)
	verifAssert(err == nil && g != nil, "a generator is restored from a valid snapshot")
	if err != nil || g == nil {
		return
	}
	verifReach("restored")
	back := g.(*SnoGenerator).Generator.Snapshot()
	verifAssert(back.Sequence == snap.Sequence, "the restored generator continues with the snapshot's sequence (also when the pool was exhausted)")
	verifAssert(back.WallHi == snap.WallHi && back.WallSafe == snap.WallSafe && back.Drifts == snap.Drifts, "the restored generator keeps the snapshot's clock marks and drift count")
	verifAssert(back.Partition == snap.Partition && back.SequenceMin == snap.SequenceMin && back.SequenceMax == snap.SequenceMax, "the restored generator keeps partition and sequence bounds")
}
