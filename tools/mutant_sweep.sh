#!/bin/bash
# For each seeded change <Cnn-mk> (or <Cnn-mk>@<Cpp> to run another property's check against it): a scratch worktree of
# /repo's HEAD gets the change, the quick check runs against that copy (VERIF_REPO), the verdict is printed, the worktree
# is removed.  /repo itself and /verif/evidence are not touched.  SWEEP_PAR=n runs n seeds at a time.
cd /verif
one() {
  x=$1
  S=${x%%@*}; P=${S%%-*}; [[ $x == *@* ]] && P=${x##*@}
  PATCH=/verif/seeded/$S/patch.diff
  [ -f $PATCH ] || { echo "RESULT $x no-such-seed"; return; }
  WT=$(mktemp -d /tmp/sweep-XXXX)
  git -C /repo worktree add --detach $WT HEAD >/dev/null 2>&1
  if ! git -C $WT apply $PATCH 2>/dev/null; then echo "RESULT $x patch-does-not-apply"; git -C /repo worktree remove --force $WT; return; fi
  OUT=$(VERIF_REPO=$WT VERIF_EVIDENCE_DIR=/tmp/ev_sweep/$x timeout 1800 ./check $P --tier quick 2>&1); RC=$?
  NV=$(echo "$OUT" | grep -c "^VIOLATION")
  echo "RESULT $x rc=$RC violations=$NV $(echo "$OUT" | tail -1)
$(echo "$OUT" | grep "violated=[1-9]" | head -4)"
  git -C /repo worktree remove --force $WT >/dev/null 2>&1; rm -rf $WT /tmp/ev_sweep/$x
}
export -f one
printf "%s\n" "$@" | xargs -P ${SWEEP_PAR:-1} -I{} bash -c 'one {}'
