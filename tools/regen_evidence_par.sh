#!/bin/bash
# like regen_evidence.sh, N checks at a time (default 4); one line per property in /tmp/regen_par.log order of completion
cd /verif
git -C /repo status --short | grep -q . && { echo "/repo is not clean"; exit 2; }
N=${1:-4}
one() { P=$1; S=$(date +%s); OUT=$(./check $P --tier quick 2>&1); RC=$?; E=$(date +%s)
  { echo "$P rc=$RC $((E-S))s | $(echo "$OUT" | tail -1)"; echo "$OUT" | grep "^INCONCLUSIVE\|^VIOLATION\|^UNCONFIRMED\|^KNOWN" | cut -c1-220; } ; }
export -f one
python3 -c "import json;print('\n'.join(c['property_id'] for c in json.load(open('MANIFEST.json'))['checks']))" | xargs -P $N -I{} bash -c 'one {}'
