package schema

import (
	"encoding/xml"
	"strings"
)

// C15 (the three sub-claims that do not need a symbolic model of encoding/xml's reflection-driven (un)marshalling).

// ---- C15.a: the formal/informal kind and the payload of an expression survive serialisation.
// Symbolic run: the real AnExpression.MarshalXML runs with Encoder.EncodeElement replaced by a stub that captures
// the value and the start tag it was given; the root element's namespace declarations come from the real PreMarshal;
// encoding/xml's documented namespace rule turns the captured attributes into what a decoder reports; the real
// AnExpression.UnmarshalXML runs with Decoder.DecodeElement replaced by a stub.
// Native replay: a real xml.Marshal / xml.Unmarshal round trip of a definitions model holding the expression.
var verifEncValue any
var verifEncStart xml.StartElement
var verifEncCalls int

func verifEncodeElement(enc *xml.Encoder, v any, start xml.StartElement) error {
	verifEncValue, verifEncStart = v, start
	verifEncCalls++
	return nil
}

func verifDecodeElement(d *xml.Decoder, v any, start *xml.StartElement) error { return nil }

const verifXSI = "http://www.w3.org/2001/XMLSchema-instance"

// encoding/xml namespace rule (documented contract): a start-tag attribute written as "prefix:local" is reported by
// the decoder with Name.Local = local and Name.Space = the URL bound to the prefix by an in-scope xmlns:prefix
// attribute, or the bare prefix when there is none.
func verifDecodeAttrs(own []xml.Attr, scope []xml.Attr) []xml.Attr {
	out := make([]xml.Attr, 0, 4)
	for _, a := range own {
		name := a.Name.Local
		prefix, local, has := strings.Cut(name, ":")
		if !has || prefix == "xmlns" {
			continue
		}
		space := prefix
		for _, s := range own {
			if s.Name.Local == "xmlns:"+prefix {
				space = s.Value
			}
		}
		if space == prefix {
			for _, s := range scope {
				if s.Name.Local == "xmlns:"+prefix {
					space = s.Value
				}
			}
		}
		out = append(out, xml.Attr{Name: xml.Name{Space: space, Local: local}, Value: a.Value})
	}
	return out
}

var verifPayloads = []string{"a > 1", "", "  x == 'y'  ", "${v}"}

func VerifC15a_ExpressionKind() {
	formal := verifNondetBool("formal")
	text := verifPayloads[verifNondetInt("payload", 0, len(verifPayloads)-1)]
	var ex ExpressionInterface
	if formal {
		fe := DefaultFormalExpression()
		fe.SetTextPayload(text)
		ex = &fe
	} else {
		e := DefaultExpression()
		e.SetTextPayload(text)
		ex = &e
	}
	an := &AnExpression{Expression: ex}
	verifReach("built")
	if !verifSymbolic() {
		verifC15aNative(an, formal, text)
		return
	}
	err := an.MarshalXML(nil, xml.StartElement{Name: xml.Name{Local: "bpmn:conditionExpression"}})
	verifAssert(err == nil && verifEncCalls == 1, "an expression is encoded exactly once")
	if formal {
		got, ok := verifEncValue.(*FormalExpression)
		verifAssert(ok && ExpressionInterface(got) == ex, "the formal expression itself (body, language, type ref) is what gets encoded")
	} else {
		got, ok := verifEncValue.(*Expression)
		verifAssert(ok && ExpressionInterface(got) == ex, "the expression itself is what gets encoded")
	}
	// namespace declarations in scope: those of the root element
	root := xml.StartElement{Name: xml.Name{Local: "definitions"}}
	defs := DefaultDefinitions()
	PreMarshal(&defs, nil, &root)
	back := &AnExpression{}
	err = back.UnmarshalXML(nil, xml.StartElement{Name: xml.Name{Local: "conditionExpression"}, Attr: verifDecodeAttrs(verifEncStart.Attr, root.Attr)})
	verifAssert(err == nil, "the serialised expression parses")
	_, isFormal := back.Expression.(*FormalExpression)
	_, isPlain := back.Expression.(*Expression)
	verifAssert(isFormal == formal && isPlain == !formal, "the formal or informal kind of an expression survives the XML round trip")
	verifReach("checked")
}

func verifC15aNative(an *AnExpression, formal bool, text string) {
	defs := DefaultDefinitions()
	p := DefaultProcess()
	pid := "p"
	p.SetId(&pid)
	sf := DefaultSequenceFlow()
	fid := "f"
	sf.SetId(&fid)
	sf.SetConditionExpression(an)
	p.SequenceFlowField = append(p.SequenceFlowField, sf)
	defs.ProcessField = append(defs.ProcessField, p)
	data, err := xml.Marshal(&defs)
	verifAssert(err == nil, "the serialised expression parses")
	var back Definitions
	err = xml.Unmarshal(data, &back)
	verifAssert(err == nil, "the serialised expression parses")
	if err != nil || len(back.ProcessField) != 1 || len(back.ProcessField[0].SequenceFlowField) != 1 {
		verifAssert(false, "the serialised expression parses")
		return
	}
	ce, ok := back.ProcessField[0].SequenceFlowField[0].ConditionExpression()
	if !ok || ce == nil {
		verifAssert(false, "the serialised expression parses")
		return
	}
	_, isFormal := ce.Expression.(*FormalExpression)
	verifAssert(isFormal == formal, "the formal or informal kind of an expression survives the XML round trip")
	if tp := ce.Expression.(TextInterface).TextPayload(); tp != nil {
		if formal {
			verifAssert(*tp == strings.TrimSpace(text), "the formal expression itself (body, language, type ref) is what gets encoded")
		} else {
			verifAssert(*tp == strings.TrimSpace(text), "the expression itself is what gets encoded")
		}
	}
}

// ---- C15.b: serialising does not alter the observable model: PreMarshal leaves the observable text payload unchanged
var verifTexts = []string{"", "x", "  padded  ", "line\n", "\n a b \n\n", "ünï"}

func VerifC15b_PreMarshalKeepsPayload() {
	i := verifNondetInt("text", 0, len(verifTexts)-1)
	absent := verifNondetBool("absent")
	e := DefaultExpression()
	idv := "e1"
	e.SetId(&idv)
	if !absent {
		e.SetTextPayload(verifTexts[i])
	}
	before := *e.TextPayload()
	start := xml.StartElement{Name: xml.Name{Space: "http://www.omg.org/spec/BPMN/20100524/MODEL", Local: "expression"}}
	verifReach("built")
	PreMarshal(&e, nil, &start)
	after := *e.TextPayload()
	verifAssert(before == after, "serialising does not alter the observable text payload of the element being serialised")
	idp, ok := e.Id()
	verifAssert(ok && *idp == "e1", "serialising does not alter the id of the element being serialised")
	verifAssert(start.Name.Local == "bpmn:expression" && start.Name.Space == "", "the element is written with its schema prefix")
}

// ---- C15.c: every element with an id is retrievable by that id (generated FindBy over a process holding one
// element of several kinds, one of them nested in a sub-process)
var verifIds = []string{"start", "task", "gw", "sub", "inner", "flow", "end", "absent", ""}

func VerifC15c_FindById() {
	p := DefaultProcess()
	pid := "proc"
	p.SetId(&pid)
	st := DefaultStartEvent()
	st.SetId(&verifIds[0])
	p.StartEventField = append(p.StartEventField, st)
	tk := DefaultTask()
	tk.SetId(&verifIds[1])
	p.TaskField = append(p.TaskField, tk)
	gw := DefaultExclusiveGateway()
	gw.SetId(&verifIds[2])
	p.ExclusiveGatewayField = append(p.ExclusiveGatewayField, gw)
	sub := DefaultSubProcess()
	sub.SetId(&verifIds[3])
	in := DefaultUserTask()
	in.SetId(&verifIds[4])
	sub.UserTaskField = append(sub.UserTaskField, in)
	p.SubProcessField = append(p.SubProcessField, sub)
	sf := DefaultSequenceFlow()
	sf.SetId(&verifIds[5])
	p.SequenceFlowField = append(p.SequenceFlowField, sf)
	en := DefaultEndEvent()
	en.SetId(&verifIds[6])
	p.EndEventField = append(p.EndEventField, en)
	defs := DefaultDefinitions()
	defs.ProcessField = append(defs.ProcessField, p)
	verifReach("built")
	i := verifNondetInt("id", 0, len(verifIds)-1)
	want := verifIds[i]
	e, found := defs.FindBy(ExactId(want))
	if i <= 6 {
		verifAssert(found, "every element with an id is retrievable by that id")
		if found {
			got, ok := e.(BaseElementInterface).Id()
			verifAssert(ok && *got == want, "FindBy(ExactId) returns the element carrying that id")
		}
	} else {
		verifAssert(!found, "an id that no element carries retrieves nothing")
	}
}
