package bpmn

// C07: cancelling the context stops the instance.  A token waits at a task whose request is pending; the context is
// cancelled at an arbitrary point (the canceller is a goroutine of its own, so the cancellation point ranges over the
// whole life of the scenario).
func VerifC07_PendingTask() {
	b := verifNewB("p")
	b.flow("in", "s", "a", false)
	b.task("a", []string{"in"}, []string{"n"})
	b.flow("n", "a", "nx", false)
	b.task("nx", []string{"n"}, nil)
	inst := verifNewInst(b)
	if inst.proc == nil {
		return
	}
	var nx int64
	inst.sinkAt("nx", &nx)
	inst.tokenAt("a", "in")
	go func() { inst.cancel() }()
	done := make(chan struct{})
	go func() {
		inst.proc.flowWaitGroup.Wait()
		close(done)
	}()
	verifQuiesce()
	verifReach("quiescent")
	select {
	case <-done:
	default:
		verifAssert(false, "after cancellation every token's goroutine exits")
	}
	verifAssert(verifGet(&nx) == 0, "a cancelled instance does not move on")
	verifAssert(inst.sendersReleased(), "after cancellation every sender handle registered with the instance's tracer is released (the tracer can terminate)")
	verifAssert(inst.count("a") <= 1, "no task request is repeated because of the cancellation")
}

// a token listens at a catch event; the context is cancelled (a) once everything is quiet, (b) at an arbitrary point
func verifC07Catch(anywhere bool) {
	inst, h1, _ := verifC11Inst()
	if inst == nil {
		return
	}
	if anywhere {
		go func() { inst.cancel() }()
		inst.tokenAt("c1", "f0")
	} else {
		inst.tokenAt("c1", "f0")
		verifQuiesce()
		inst.cancel()
	}
	done := make(chan struct{})
	go func() {
		inst.proc.flowWaitGroup.Wait()
		close(done)
	}()
	verifQuiesce()
	verifReach("quiescent")
	select {
	case <-done:
	default:
		verifAssert(false, "after cancellation every token's goroutine exits")
	}
	verifAssert(verifGet(h1) == 0, "a cancelled instance does not move on")
	verifAssert(inst.sendersReleased(), "after cancellation every sender handle registered with the instance's tracer is released (the tracer can terminate)")
}

func VerifC07_ListeningCatch()         { verifC07Catch(false) }
func VerifC07_ListeningCatchAnywhere() { verifC07Catch(true) }

// a token waits at a parallel join that is half full
func VerifC07_HalfFullJoin() {
	b := verifNewB("p")
	b.flow("i1", "s", "gw", false)
	b.flow("i2", "s", "gw", false)
	b.parallel("gw", []string{"i1", "i2"}, []string{"o"})
	b.flow("o", "gw", "t", false)
	b.task("t", []string{"o"}, nil)
	inst := verifNewInst(b)
	if inst.proc == nil {
		return
	}
	var hits int64
	inst.sinkAt("t", &hits)
	inst.tokenAt("gw", "i1")
	go func() { inst.cancel() }()
	done := make(chan struct{})
	go func() {
		inst.proc.flowWaitGroup.Wait()
		close(done)
	}()
	verifQuiesce()
	verifReach("quiescent")
	select {
	case <-done:
	default:
		verifAssert(false, "after cancellation every token's goroutine exits")
	}
	verifAssert(verifGet(&hits) == 0, "a cancelled instance does not move on")
	verifAssert(inst.sendersReleased(), "after cancellation every sender handle registered with the instance's tracer is released (the tracer can terminate)")
}

// a token at an exclusive gateway (probing its conditions) when the context is cancelled at an arbitrary point
func VerifC07_ExclusiveGateway() {
	b := verifNewB("p")
	b.flow("in", "s", "gw", false)
	b.exclusive("gw", []string{"in"}, []string{"f0", "fd"}, "fd")
	b.flow("f0", "gw", "t0", true)
	b.cond("f0", verifNondetBool("c"))
	b.flow("fd", "gw", "td", false)
	b.task("t0", []string{"f0"}, nil)
	b.task("td", []string{"fd"}, nil)
	inst := verifNewInst(b)
	if inst.proc == nil {
		return
	}
	var h0, hd int64
	inst.sinkAt("t0", &h0)
	inst.sinkAt("td", &hd)
	go func() { inst.cancel() }()
	inst.tokenAt("gw", "in")
	done := make(chan struct{})
	go func() {
		inst.proc.flowWaitGroup.Wait()
		close(done)
	}()
	verifQuiesce()
	verifReach("quiescent")
	select {
	case <-done:
	default:
		verifAssert(false, "after cancellation every token's goroutine exits")
	}
	verifAssert(verifGet(&h0)+verifGet(&hd) <= 1, "a cancelled instance does not move on")
	verifAssert(inst.sendersReleased(), "after cancellation every sender handle registered with the instance's tracer is released (the tracer can terminate)")
}

// two alternatives of an event-based gateway wait for their events when the context is cancelled
func VerifC07_EventBasedWaiting() {
	inst, h1, h2 := verifC06Inst()
	if inst == nil {
		return
	}
	inst.eventNodeAt("c1")
	inst.eventNodeAt("c2")
	inst.tokenAt("gw", "in")
	verifQuiesce()
	inst.cancel()
	done := make(chan struct{})
	go func() {
		inst.proc.flowWaitGroup.Wait()
		close(done)
	}()
	verifQuiesce()
	verifReach("quiescent")
	select {
	case <-done:
	default:
		verifAssert(false, "after cancellation every token's goroutine exits")
	}
	verifAssert(verifGet(h1)+verifGet(h2) == 0, "a cancelled instance does not move on")
	verifAssert(inst.sendersReleased(), "after cancellation every sender handle registered with the instance's tracer is released (the tracer can terminate)")
}

// two tokens wait at a 3-way parallel join (the gateway has been entered twice) when the context is cancelled
func VerifC07_JoinEnteredTwice() {
	b := verifNewB("p")
	b.flow("i1", "s", "gw", false)
	b.flow("i2", "s", "gw", false)
	b.flow("i3", "s", "gw", false)
	b.parallel("gw", []string{"i1", "i2", "i3"}, []string{"o"})
	b.flow("o", "gw", "t", false)
	b.task("t", []string{"o"}, nil)
	inst := verifNewInst(b)
	if inst.proc == nil {
		return
	}
	var hits int64
	inst.sinkAt("t", &hits)
	inst.tokenAt("gw", "i1")
	inst.tokenAt("gw", "i2")
	verifQuiesce()
	inst.cancel()
	done := make(chan struct{})
	go func() {
		inst.proc.flowWaitGroup.Wait()
		close(done)
	}()
	verifQuiesce()
	verifReach("quiescent")
	exited := false
	select {
	case <-done:
		exited = true
	default:
	}
	verifAssert(exited, "after cancellation every token's goroutine exits")
	verifAssert(verifGet(&hits) == 0, "a cancelled instance does not move on")
	verifAssert(inst.sendersReleased(), "after cancellation every sender handle registered with the instance's tracer is released (the tracer can terminate)")
}
