package bpmn

import (
	"context"

	"github.com/olive-io/bpmn/schema"
	"github.com/olive-io/bpmn/v2/pkg/event"
)

// C06: event-based gateway - exactly one alternative wins.
// Real eventBasedGateway.run (with its terminate/actionTransformer closures), real flow loop for the token and the forked
// alternatives, real catchEvent nodes, real Process.ConsumeEvent.  Sinks stand for what follows each alternative.
func verifC06Inst() (*verifInst, *int64, *int64) {
	b := verifNewB("p")
	b.flow("in", "s", "gw", false)
	b.eventBased("gw", []string{"in"}, []string{"a1", "a2"})
	b.flow("a1", "gw", "c1", false)
	b.flow("a2", "gw", "c2", false)
	b.catchSignal("c1", "sig1", []string{"a1"}, []string{"f1"})
	b.catchSignal("c2", "sig2", []string{"a2"}, []string{"f2"})
	b.flow("f1", "c1", "t1", false)
	b.flow("f2", "c2", "t2", false)
	b.task("t1", []string{"f1"}, nil)
	b.task("t2", []string{"f2"}, nil)
	inst := verifNewInst(b)
	if inst.proc == nil {
		return nil, nil, nil
	}
	var h1, h2 int64
	inst.sinkAt("t1", &h1)
	inst.sinkAt("t2", &h2)
	return inst, &h1, &h2
}

var verifSigs = []string{"sig1", "sig2"}

// the competing events are delivered by `deliverers` goroutines, `per` events each (which event: solver's choice)
func verifC06(deliverers, per int, fixed bool) {
	inst, h1, h2 := verifC06Inst()
	if inst == nil {
		return
	}
	inst.tokenAt("gw", "in")
	verifQuiesce() // both alternatives are listening
	var returned int64
	for d := 0; d < deliverers; d++ {
		go func() {
			for i := 0; i < per; i++ {
				k := d
				if !fixed {
					k = verifChoice("ev", 0, 1)
				}
				inst.proc.ConsumeEvent(event.NewSignalEvent(verifSigs[k%2]))
				verifAdd(&returned, 1)
			}
		}()
	}
	verifQuiesce()
	verifReach("quiescent")
	verifAssert(verifGet(&returned) == int64(deliverers*per), "every event delivery returns")
	verifAssert(verifGet(h1)+verifGet(h2) <= 1, "at most one alternative of an event-based gateway continues")
	verifAssert(verifGet(h1)+verifGet(h2) >= 1, "the winning alternative continues exactly once (the instance goes on)")
}

func VerifC06_One()        { verifC06(1, 1, false) }
func VerifC06_Seq2()       { verifC06(1, 2, false) }
func VerifC06_Concurrent() { verifC06(2, 1, true) }

// ---- reduced scenario: the alternatives are stand-ins for catch events (a node that answers NextAction with its outgoing
// flows once the harness "delivers its event"); gateway, flows, termination channels and action transformer are the real code.
type verifEventNode struct {
	elem schema.FlowNodeInterface
	outs []*SequenceFlow
	fire chan struct{}
}

func (n *verifEventNode) NextAction(ctx context.Context, flow Flow) chan IAction {
	response := make(chan IAction)
	go func() {
		<-n.fire
		response <- flowAction{sequenceFlows: n.outs}
	}()
	return response
}
func (n *verifEventNode) Element() schema.FlowNodeInterface { return n.elem }

func (inst *verifInst) eventNodeAt(nid string) *verifEventNode {
	real := inst.nodeAt(nid).(*catchEvent)
	n := &verifEventNode{elem: inst.elem(nid), outs: allSequenceFlows(&real.outgoing), fire: make(chan struct{})}
	inst.proc.flowNodeMapping.mapping[nid] = n
	return n
}

func verifC06Stub(both bool) {
	inst, h1, h2 := verifC06Inst()
	if inst == nil {
		return
	}
	n1, n2 := inst.eventNodeAt("c1"), inst.eventNodeAt("c2")
	inst.tokenAt("gw", "in")
	verifQuiesce() // both alternatives wait for their event
	if both {
		go func() { close(n1.fire) }()
		go func() { close(n2.fire) }()
	} else if verifNondetBool("second") {
		close(n2.fire)
	} else {
		close(n1.fire)
	}
	verifQuiesce()
	verifReach("quiescent")
	verifAssert(verifGet(h1)+verifGet(h2) <= 1, "at most one alternative of an event-based gateway continues")
	verifAssert(verifGet(h1)+verifGet(h2) >= 1, "the winning alternative continues exactly once (the instance goes on)")
	done := make(chan struct{})
	go func() {
		inst.proc.flowWaitGroup.Wait()
		close(done)
	}()
	verifQuiesce()
	select {
	case <-done:
	default:
		verifAssert(false, "every losing alternative is withdrawn and the winner moves on (no token is left at the gateway's alternatives)")
	}
}

func VerifC06_Stub_One()  { verifC06Stub(false) }
func VerifC06_Stub_Both() { verifC06Stub(true) }

// the first alternative's event is already there when the token reaches the gateway: the winner may be determined
// before the other alternative's flow has parked; the loser must still be withdrawn
func VerifC06_Stub_Early() {
	inst, h1, h2 := verifC06Inst()
	if inst == nil {
		return
	}
	n1, _ := inst.eventNodeAt("c1"), inst.eventNodeAt("c2")
	close(n1.fire)
	inst.tokenAt("gw", "in")
	verifQuiesce()
	verifReach("quiescent")
	verifAssert(verifGet(h1) == 1 && verifGet(h2) == 0, "the winning alternative continues exactly once (the instance goes on)")
	done := make(chan struct{})
	go func() {
		inst.proc.flowWaitGroup.Wait()
		close(done)
	}()
	verifQuiesce()
	select {
	case <-done:
	default:
		verifAssert(false, "every losing alternative is withdrawn and the winner moves on (no token is left at the gateway's alternatives)")
	}
}
