from common import STD
PROPERTY = "C11"
EXPLANATION = ("Real Process.ConsumeEvent -> event.ForwardEvent -> catchEvent.ConsumeEvent / catchEvent.run / SignalEvent.MatchesEventInstance and the "
               "real flow loop for a token waiting at a catch event, in an instance built by the real NewProcess; the event history "
               "(matching, matching another listener, matching none) is chosen by the solver, the scheduler is symbolic.")
ASSUMPTIONS = ["tracer replaced by the synchronous stub (contract established by C09)",
               "signal events only (message events differ in the comparison of the reference string only)",
               "histories up to length 4 from one deliverer goroutine; two catch events, one of them on a branch that is never reached"]
EO_A = ["delivering an event returns whether or not the catch events have been reached"]


def sc(entry, name, bounds, eo, tiers=("quick", "thorough"), K=80):
    return dict(name=name, entry=entry, K=K, reach=["quiescent"], overrides=STD, tiers=tiers, expect_obligations=eo, bounds=bounds)


SCENARIOS = [
    sc("VerifC11a_Unreached_3", "C11.a 3 events, c2 never reached", "instance started, token waiting at c1; 3 events (sig2/noise) while c2 was never reached", EO_A),
    sc("VerifC11a_Unreached_4", "C11.a 4 events, c2 never reached", "instance started, token waiting at c1; 4 events (sig2/noise) while c2 was never reached", EO_A),
    sc("VerifC11b_Listening_1", "C11.b 1 event, token listening", "token parked at c1; 1 event from {sig1, sig2, noise}",
       EO_A + ["a listening catch event continues exactly once on a matching event"]),
    sc("VerifC11b_Listening_2", "C11.b 2 events, token listening", "token parked at c1; 2 events from {sig1, sig2, noise}",
       EO_A + ["a listening catch event continues exactly once on a matching event"]),
    sc("VerifC11b_SmallInbox_2", "C11.b 2 events, listener with inbox capacity 1", "token parked at a catch event without declared incoming flows (inbox capacity 1); 2 events from {sig1, sig2, noise}",
       EO_A + ["a listening catch event continues exactly once on a matching event"]),
    sc("VerifC11d_WithdrawnListener", "C11.d events for a withdrawn listener", "a token listening at a catch event is withdrawn through its termination channel (as the losers of an event-based gateway are); then 2 matching events from one goroutine",
       eo=["delivering an event returns whether or not the catch events have been reached", "an event for a withdrawn listener has no effect"]),
    sc("VerifC11c_Revisit", "C11.c catch event reached a second time", "token, matching event, second token at the same catch event, matching event",
       EO_A + ["a catch event that is reached again listens again and continues once per matching event"], K=120),
    sc("VerifC11b_Listening_3", "C11.b 3 events, token listening", "token parked at c1; 3 events", EO_A, tiers=("thorough",), K=120),
]
