package logic

import (
	"github.com/bits-and-blooms/bitset"
	"github.com/olive-io/bpmn/schema"
	"github.com/olive-io/bpmn/v2/pkg/event"
)

var verifSigNames = []string{"s0", "s1", "s2", "s3"}

func verifCatch(n int, parallel bool) *schema.CatchEvent {
	ce := schema.DefaultCatchEvent()
	defs := make([]schema.SignalEventDefinition, 0, n)
	for i := 0; i < n; i++ {
		d := schema.DefaultSignalEventDefinition()
		q := schema.QName(verifSigNames[i])
		d.SetSignalRef(&q)
		defs = append(defs, d)
	}
	ce.SetSignalEventDefinitions(defs)
	if parallel {
		p := true
		ce.SetParallelMultiple(&p)
	}
	return &ce
}

// history of length L over n definitions + a non-matching event; accounting checked after every event
func verifC14Catch(n, L int, parallel bool) {
	s := NewCatchEventSatisfier(verifCatch(n, parallel), event.WrappingDefinitionInstanceBuilder)
	var matched [4]int64
	verifC14Run(s, n, L, parallel, matched, 0)
}

func verifC14Run(s *CatchEventSatisfier, n, L int, parallel bool, matched [4]int64, fires int64) {
	for j := 0; j < L; j++ {
		verifMerge()
		h := verifNondetInt("h", 0, n) // n = event matching no definition
		name := "none"
		if h < n {
			name = verifSigNames[h]
		}
		chainsBefore := len(s.chains)
		var bitsBefore uint
		for _, c := range s.chains {
			bitsBefore += c.Count()
		}
		ok, chain := s.Satisfy(event.NewSignalEvent(name))
		if h == n {
			verifAssert(!ok && chain == EventDidNotMatch, "non-matching event reports no match")
			var bitsAfter uint
			for _, c := range s.chains {
				bitsAfter += c.Count()
			}
			verifAssert(len(s.chains) == chainsBefore && bitsAfter == bitsBefore, "non-matching event changes nothing")
		} else {
			matched[h]++
			if ok {
				fires++
			}
			if !parallel || n == 1 {
				verifAssert(ok && chain == 0, "plain multiple fires on every matching event")
			} else {
				verifAssert(chain >= 0 && (ok || chain < len(s.chains)), "returned chain index is valid")
			}
		}
		if parallel {
			allEq := true
			for i := 0; i < n; i++ {
				verifAssert(fires <= matched[i], "never fires more often than the least-matched definition")
				allEq = verifAnd(allEq, matched[i] == matched[0])
			}
			verifAssert(verifImplies(allEq, fires == matched[0]), "fired exactly k times when every definition matched k times")
			verifAssert(verifImplies(allEq, len(s.chains) == 0), "no partial chain left when all definitions matched equally often")
		}
	}
	verifReach("end")
}

func VerifC14_Par2_L4()   { verifC14Catch(2, 4, true) }
func VerifC14_Par3_L5()   { verifC14Catch(3, 5, true) }
func VerifC14_Par2_L6()   { verifC14Catch(2, 6, true) }
func VerifC14_Par3_L6()   { verifC14Catch(3, 6, true) }
func VerifC14_Par4_L6()   { verifC14Catch(4, 6, true) }
func VerifC14_Par4_L9()   { verifC14Catch(4, 9, true) }
func VerifC14_Par3_L9()   { verifC14Catch(3, 9, true) }
func VerifC14_Par1_L4()   { verifC14Catch(1, 4, true) }
func VerifC14_Multi3_L5() { verifC14Catch(3, 5, false) }
func VerifC14_Par2_L5()   { verifC14Catch(2, 5, true) }

// the throw-event counterpart (always "all definitions required" when there are several)
func verifC14Throw(n, L int) {
	te := schema.DefaultThrowEvent()
	defs := make([]schema.SignalEventDefinition, 0, n)
	for i := 0; i < n; i++ {
		d := schema.DefaultSignalEventDefinition()
		q := schema.QName(verifSigNames[i])
		d.SetSignalRef(&q)
		defs = append(defs, d)
	}
	te.SetSignalEventDefinitions(defs)
	s := NewThrowEventSatisfier(&te, event.WrappingDefinitionInstanceBuilder)
	var matched [4]int64
	var fires int64
	for j := 0; j < L; j++ {
		verifMerge()
		h := verifNondetInt("h", 0, n)
		name := "none"
		if h < n {
			name = verifSigNames[h]
		}
		chainsBefore := len(s.chains)
		ok, chain := s.Satisfy(event.NewSignalEvent(name))
		if h == n {
			verifAssert(!ok && chain == EventDidNotMatch, "non-matching event reports no match")
			verifAssert(len(s.chains) == chainsBefore, "non-matching event changes nothing")
		} else {
			matched[h]++
			if ok {
				fires++
			}
		}
		allEq := true
		for i := 0; i < n; i++ {
			verifAssert(fires <= matched[i], "never fires more often than the least-matched definition")
			allEq = verifAnd(allEq, matched[i] == matched[0])
		}
		verifAssert(verifImplies(allEq, fires == matched[0]), "fired exactly k times when every definition matched k times")
	}
	verifReach("end")
}

func VerifC14_Throw2_L4() { verifC14Throw(2, 4) }
func VerifC14_Throw3_L5() { verifC14Throw(3, 5) }

// the same accounting from an arbitrary state of the family F = { k <= 3 open chains, nested in list order
// (chains[0] >= chains[1] >= ...), every chain non-empty and not full }.  Every member of F is reached from the empty
// satisfier by a history that completes no chain (k copies of a definition common to all chains open k chains {d}; every
// other definition b, present in the first p_b chains, is then sent p_b times and fills exactly that prefix), so the
// ghost counters of that history are matched[b] = p_b, fires = 0.  L further events from there are histories of length
// up to 3n + L from the empty state - a slice of the long histories the from-empty scenarios cannot reach.
func verifC14CatchFrom(n, L int) {
	s := NewCatchEventSatisfier(verifCatch(n, true), event.WrappingDefinitionInstanceBuilder)
	// enumerate the family: k open chains, definition b present in the first p[b] chains, max p = k, min p = 0
	type fam struct {
		k int
		p [4]int
	}
	fams := make([]fam, 0, 64)
	var rec func(b int, cur fam)
	rec = func(b int, cur fam) {
		if b == n {
			mx, mn := 0, cur.k
			for i := 0; i < n; i++ {
				if cur.p[i] > mx {
					mx = cur.p[i]
				}
				if cur.p[i] < mn {
					mn = cur.p[i]
				}
			}
			if mx == cur.k && mn == 0 {
				fams = append(fams, cur)
			}
			return
		}
		for v := 0; v <= cur.k; v++ {
			cur.p[b] = v
			rec(b+1, cur)
		}
	}
	for k := 0; k <= 3; k++ {
		rec(0, fam{k: k})
	}
	c := verifNondetInt("family", 0, len(fams)-1)
	var matched [4]int64
	for c0 := range fams {
		if c != c0 {
			continue
		}
		f := fams[c0]
		for j := 0; j < f.k; j++ {
			bs := bitset.New(uint(n))
			for b := 0; b < n; b++ {
				if j < f.p[b] {
					bs.Set(uint(b))
				}
			}
			s.chains = append(s.chains, bs)
		}
		for b := 0; b < n; b++ {
			matched[b] = int64(f.p[b])
		}
	}
	verifMerge()
	verifReach("pre-state")
	verifC14Run(s, n, L, true, matched, 0)
}

func VerifC14_From2_L4() { verifC14CatchFrom(2, 4) }
func VerifC14_From2_L5() { verifC14CatchFrom(2, 5) }
func VerifC14_From3_L2() { verifC14CatchFrom(3, 2) }
func VerifC14_From3_L3() { verifC14CatchFrom(3, 3) }
func VerifC14_From3_L4() { verifC14CatchFrom(3, 4) }
