from common import STD, ROOT
PROPERTY = "C18"
EXPLANATION = ("Real NewProcessSet / ProcessSet.StartAll / tracerProcess / WaitUntilComplete / run under a symbolic scheduler. A member process is "
               "stood in for by a goroutine that emits its traces (ending in CeaseFlowTrace) on the member's tracer at its own pace, so the "
               "order between a member's completion and the set's per-process trace subscription is a scheduling choice.")
ASSUMPTIONS = ["Process.StartAll of a member is replaced by a goroutine emitting VisitTrace, CeaseFlowTrace at arbitrary points (the behaviour of a real process is C01/C02's subject)",
               "tracers replaced by the synchronous stub whose Subscribe is a scheduling point (contract established by C09)",
               "message flows: Process.StartWith of the instantiated process is a stand-in that counts the instantiation and emits its traces; the wake-up of a referenced catch event is not covered"]
OV = dict(STD)
OV["(*%s.Process).StartAll" % ROOT] = "verifProcStartAll"
EO = ["every WaitUntilComplete call returns once all started processes have completed, however early they finish",
      "exactly one cease-process-set trace is emitted", "WaitUntilComplete returns true only when every started process has completed"]


def sc(entry, name, bounds, tiers=("quick", "thorough"), K=70):
    return dict(name=name, entry=entry, K=K, reach=["quiescent"], overrides=OV, tiers=tiers, expect_obligations=EO, bounds=bounds, native=False)


SCENARIOS = [
    sc("VerifC18_P1_W1", "C18 1 process, 1 wait", "1 member process, 1 WaitUntilComplete"),
    sc("VerifC18_P1_W2seq", "C18 1 process, 2 sequential waits", "1 member process, 2 sequential WaitUntilComplete calls"),
    sc("VerifC18_P1_W2conc", "C18 1 process, 2 concurrent waits", "1 member process, 2 concurrent WaitUntilComplete calls"),
    sc("VerifC18_P2_W1", "C18 2 processes, 1 wait", "2 member processes, 1 WaitUntilComplete", K=90),
    dict(sc("VerifC18_Message_1", "C18 message flow, 1 throw", "1 member process throwing once, 1 waiting process instantiated through a message flow", K=90),
         overrides=dict(OV, **{"(*%s.Process).StartAll" % ROOT: "verifProcStartAllThrowing", "(*%s.Process).StartWith" % ROOT: "verifProcStartWith"}),
         expect_obligations=["a message flow instantiates the waiting target process exactly once per throw", "exactly one cease-process-set trace is emitted"]),
    dict(sc("VerifC18_Message_2", "C18 message flow, 2 throws", "1 member process throwing twice, the waiting process instantiated twice", K=120, tiers=("thorough",)),
         overrides=dict(OV, **{"(*%s.Process).StartAll" % ROOT: "verifProcStartAllThrowing", "(*%s.Process).StartWith" % ROOT: "verifProcStartWith"}),
         expect_obligations=["a message flow instantiates the waiting target process exactly once per throw", "exactly one cease-process-set trace is emitted"]),
]
