PROPERTY = "C16"
EXPLANATION = ("Real schema.NewValue / (*Value).ValueFrom / ValueFor executed symbolically: the dynamic kind of the stored Go value "
               "(a tag over the supported kinds), its payload (64-bit symbolic integers, symbolic booleans, strings from a stated pool, "
               "floats from a stated list) and the declared item type are solver variables; reflect / fmt / strconv / JSON appear through "
               "their documented contracts (including their panics).")
ASSUMPTIONS = ["reflect.Value.Int panics unless the kind is a signed integer kind, Uint unless unsigned, TypeOf(nil) is nil (reflect contracts)",
               "fmt %v of an integer = strconv.FormatInt/FormatUint; ParseInt(FormatInt(x)) = x; %v of a float is the shortest representation that parses back; %f prints 6 decimals",
               "%v of a value whose type has a String method prints that method's result",
               "JSON (sonic) Marshal/Unmarshal are uninterpreted: array/object content fidelity is outside the claim (only type tag and panic-freedom)",
               "strings range over a pool of 13 boundary shapes; floats over 7 listed values (no symbolic floating point)"]
H = "schema"


def sc(entry, name, bounds, eo, K=12):
    return dict(name=name, entry=entry, harness=H, K=K, reach=["built"], expect_obligations=eo, bounds=bounds, require_native=True)


SCENARIOS = [
    sc("VerifC16_Signed", "C16 signed integers", "int,int8,int16,int32,int64 x undeclared/declared integer x all 64-bit payloads",
       ["signed integer reads back unchanged"]),
    sc("VerifC16_Unsigned", "C16 unsigned integers", "uint,uint8,uint16,uint32,uint64 x undeclared/declared integer x payloads 0..2^63-1",
       ["unsigned integer reads back unchanged"]),
    sc("VerifC16_NamedInt", "C16 named integer with String method", "named int type (Stringer), plain and behind a pointer, all payloads",
       ["named integer reads back as its numeric value"]),
    sc("VerifC16_BoolString", "C16 bools and strings", "bool x {undeclared, boolean}; 13 strings x {undeclared, string, *string}",
       ["bool reads back unchanged", "string reads back unchanged"]),
    sc("VerifC16_Float", "C16 floats", "7 float values x float32/float64 x undeclared/declared float",
       ["float reads back unchanged", "declared float reads back unchanged"]),
    sc("VerifC16_AnyDeclaration", "C16 every kind against every declaration", "12 kinds incl. nil and typed nil pointer x 8 declarations",
       ["a declared item type is never changed by a store"]),
    sc("VerifC16_ContainerFresh", "C16 containers are snapshots", "map[string]any{a: x} / []any{x, y} (x a symbolic bool) x undeclared/declared; source mutated after the store, first read mutated before the second",
       ["object reads back with the content it was stored with", "a reader changing the container it was given does not change the stored object",
        "array reads back with the content it was stored with", "a reader changing the container it was given does not change the stored array"]),
    sc("VerifC16_ValueCopy", "C16 *Value copy", "8 declarations", ["a *Value is copied verbatim"]),
    dict(name="C16.c instance isolation", entry="VerifC16c_Isolation", harness="root", K=60, reach=["built"],
         overrides={"github.com/olive-io/bpmn/v2/pkg/tracing.NewTracer": "verifNewTracer"},
         expect_obligations=["a variable written by one instance is not visible to another instance"],
         bounds="two option sets from one WithVariables option value; one writes (64-bit symbolic value), the other reads"),
]
