"""Value domain of the symbolic interpreter: immutable trees with z3 leaves and guarded unions."""
import z3

TRUE = True
FALSE = False


def is_bool_conc(x):
    return x is True or x is False


def is_int_conc(x):
    return type(x) is int


def is_z3(x):
    return isinstance(x, z3.ExprRef)


# ---------------------------------------------------------------- booleans
def B(x):
    """python bool / z3 Bool -> z3 Bool"""
    if x is True:
        return z3.BoolVal(True)
    if x is False:
        return z3.BoolVal(False)
    return x


def _norm(x):
    if is_z3(x):
        if z3.is_true(x):
            return True
        if z3.is_false(x):
            return False
    return x


def NOT(a):
    a = _norm(a)
    if a is True:
        return False
    if a is False:
        return True
    if z3.is_not(a):
        return a.arg(0)
    return z3.Not(a)


def AND(*xs):
    out = []
    seen = set()
    for x in xs:
        x = _norm(x)
        if x is True:
            continue
        if x is False:
            return False
        i = x.get_id()
        if i in seen:
            continue
        seen.add(i)
        out.append(x)
    if not out:
        return True
    if len(out) == 1:
        return out[0]
    return z3.And(*out)


def OR(*xs):
    out = []
    seen = set()
    for x in xs:
        x = _norm(x)
        if x is False:
            continue
        if x is True:
            return True
        i = x.get_id()
        if i in seen:
            continue
        seen.add(i)
        out.append(x)
    if not out:
        return False
    if len(out) == 1:
        return out[0]
    return z3.Or(*out)


def ITE_B(g, a, b):
    g = _norm(g)
    if g is True:
        return a
    if g is False:
        return b
    a = _norm(a)
    b = _norm(b)
    if a is True and b is False:
        return g
    if a is False and b is True:
        return NOT(g)
    if a is True:
        return OR(g, b)
    if a is False:
        return AND(NOT(g), b)
    if b is True:
        return OR(NOT(g), a)
    if b is False:
        return AND(g, a)
    if a.eq(b):
        return a
    return z3.If(g, a, b)


# ---------------------------------------------------------------- structured values
class Ptr:
    __slots__ = ("obj", "path")

    def __init__(self, obj, path=()):
        self.obj = obj
        self.path = path

    def __eq__(self, o):
        return type(o) is Ptr and self.obj == o.obj and self.path == o.path

    def __hash__(self):
        return hash((self.obj, self.path))

    def __repr__(self):
        return "&%s%s" % (self.obj, list(self.path) if self.path else "")


class Slice:
    __slots__ = ("obj", "path", "off", "len", "cap")

    def __init__(self, obj, path, off, ln, cp):
        self.obj = obj
        self.path = path
        self.off = off
        self.len = ln
        self.cap = cp

    def __eq__(self, o):
        if type(o) is not Slice or (self.obj, self.path, self.off, self.cap) != (o.obj, o.path, o.off, o.cap):
            return False
        a, b = self.len, o.len
        if type(a) is int and type(b) is int:
            return a == b
        if type(a) is int or type(b) is int:
            return False
        return a.eq(b)

    def __hash__(self):
        return hash((self.obj, self.path, self.off, self.cap))

    def __repr__(self):
        return "slice(%s%s+%d,len=%s,cap=%d)" % (self.obj, list(self.path), self.off, self.len, self.cap)


NILSLICE = Slice(None, (), 0, 0, 0)


class Iface:
    __slots__ = ("t", "v")

    def __init__(self, t, v):
        self.t = t
        self.v = v

    def __eq__(self, o):
        return type(o) is Iface and self.t == o.t and same(self.v, o.v)

    def __hash__(self):
        return hash(self.t)

    def __repr__(self):
        return "iface<%s>(%r)" % (self.t.split("/")[-1], self.v)


class Closure:
    __slots__ = ("fn", "fv")

    def __init__(self, fn, fv=()):
        self.fn = fn
        self.fv = fv

    def __eq__(self, o):
        return type(o) is Closure and self.fn == o.fn and same(self.fv, o.fv)

    def __hash__(self):
        return hash(self.fn)

    def __repr__(self):
        return "closure(%s)" % self.fn.split("/")[-1]


class Chan:
    __slots__ = ("obj",)

    def __init__(self, obj):
        self.obj = obj

    def __eq__(self, o):
        return type(o) is Chan and self.obj == o.obj

    def __hash__(self):
        return hash(("ch", self.obj))

    def __repr__(self):
        return "chan%s" % (self.obj,)


class MapRef:
    __slots__ = ("obj",)

    def __init__(self, obj):
        self.obj = obj

    def __eq__(self, o):
        return type(o) is MapRef and self.obj == o.obj

    def __hash__(self):
        return hash(("map", self.obj))

    def __repr__(self):
        return "map%s" % (self.obj,)


class Opaque:
    """uninterpreted value (formatted strings, errors built by fmt, ...)"""
    __slots__ = ("what",)

    def __init__(self, what):
        self.what = what

    def __eq__(self, o):
        return type(o) is Opaque and self.what == o.what

    def __hash__(self):
        return hash(self.what)

    def __repr__(self):
        return "opaque(%s)" % (self.what,)


class Union:
    """guarded alternatives; guards are mutually exclusive under the current path condition"""
    __slots__ = ("alts",)

    def __init__(self, alts):
        self.alts = alts

    def __repr__(self):
        return "U{" + ", ".join("%s" % (v,) for g, v in self.alts) + "}"


def same(a, b):
    """cheap structural identity (never calls the solver)"""
    if a is b:
        return True
    ta, tb = type(a), type(b)
    if is_z3(a) or is_z3(b):
        if is_z3(a) and is_z3(b):
            return a.eq(b)
        return False
    if ta is not tb:
        return False
    if ta is tuple:
        if len(a) != len(b):
            return False
        for x, y in zip(a, b):
            if not same(x, y):
                return False
        return True
    if ta is Union:
        return False
    try:
        return a == b
    except Exception:
        return False


def _shape(v):
    t = type(v)
    if t is tuple:
        return ("t", len(v))
    if t is Iface:
        return ("i", v.t)
    if t is Closure:
        return ("c", v.fn, len(v.fv))
    if t is Slice and v.obj is not None:
        return ("s", v.obj, v.path, v.off, v.cap)
    return None


def mk_union(alts):
    """flatten, drop false guards, combine equal values; alternatives of equal shape (tuples of one
    length, interface values of one dynamic type, closures of one function) are merged into one
    alternative with merged components, so a union has at most one alternative per shape"""
    flat = []
    for g, v in alts:
        g = _norm(g)
        if g is False:
            continue
        if type(v) is Union:
            for g2, v2 in v.alts:
                gg = AND(g, g2)
                if gg is not False:
                    flat.append((gg, v2))
        else:
            flat.append((g, v))
    out = []
    shapes = {}
    for g, v in flat:
        sh = _shape(v)
        if sh is not None:
            i = shapes.get(sh)
            if i is None:
                shapes[sh] = len(out)
                out.append((g, v))
            else:
                g0, v0 = out[i]
                out[i] = (OR(g0, g), v0 if v0 is v else _merge(g, v, v0))
            continue
        for i, (g0, v0) in enumerate(out):
            if _shape(v0) is None and same(v0, v):
                out[i] = (OR(g0, g), v0)
                break
        else:
            out.append((g, v))
    if not out:
        return None
    if len(out) == 1:
        return out[0][1]
    # all scalars with a known width / booleans -> fold into an ite term
    if all(is_z3(v) or is_int_conc(v) for g, v in out):
        w = None
        for g, v in out:
            if is_z3(v) and z3.is_bv(v):
                w = v.size()
        if w is not None and all(is_int_conc(v) or (z3.is_bv(v) and v.size() == w) for g, v in out):
            r = out[-1][1]
            r = r if is_z3(r) else z3.BitVecVal(r, w)
            for g, v in reversed(out[:-1]):
                r = z3.If(B(g), v if is_z3(v) else z3.BitVecVal(v, w), r)
            return r
    if all(is_bool_conc(v) or (is_z3(v) and z3.is_bool(v)) for g, v in out):
        r = out[-1][1]
        for g, v in reversed(out[:-1]):
            r = ITE_B(g, v, r)
        return r
    return Union(out)


def merge(g, a, b):
    """value that equals a when g holds and b otherwise (single pass; keeps object identity when possible)"""
    g = _norm(g)
    if g is True:
        return a
    if g is False:
        return b
    return _merge(g, a, b)


def _merge(g, a, b):
    if a is b:
        return a
    ta, tb = type(a), type(b)
    if ta is tuple and tb is tuple and len(a) == len(b):
        out = None
        for i in range(len(a)):
            x, y = a[i], b[i]
            if x is y:
                r = x
            else:
                r = _merge(g, x, y)
            if out is not None:
                out.append(r)
            elif r is not x:
                out = list(a[:i])
                out.append(r)
        return a if out is None else tuple(out)
    if ta is Union or tb is Union:
        return mk_union([(g, a), (NOT(g), b)])
    za, zb = isinstance(a, z3.ExprRef), isinstance(b, z3.ExprRef)
    if za or zb:
        if za and zb:
            if a.eq(b):
                return a
            if a.sort() == b.sort():
                if z3.is_bool(a):
                    return ITE_B(g, a, b)
                return z3.If(g, a, b)
            return mk_union([(g, a), (NOT(g), b)])
        if za:
            if z3.is_bool(a) and tb is bool:
                return ITE_B(g, a, b)
            if z3.is_bv(a) and tb is int:
                return z3.If(g, a, z3.BitVecVal(b, a.size()))
        else:
            if z3.is_bool(b) and ta is bool:
                return ITE_B(g, a, b)
            if z3.is_bv(b) and ta is int:
                return z3.If(g, z3.BitVecVal(a, b.size()), b)
        return mk_union([(g, a), (NOT(g), b)])
    if ta is bool and tb is bool:
        if a == b:
            return a
        return g if a else NOT(g)
    if ta is Iface and tb is Iface and a.t == b.t:
        v = _merge(g, a.v, b.v)
        return a if v is a.v else Iface(a.t, v)
    if ta is Slice and tb is Slice and a.obj is not None and a.obj == b.obj and a.path == b.path and a.off == b.off and a.cap == b.cap:
        # same backing array: one slice value with a symbolic length
        la, lb = a.len, b.len
        if type(la) is int and type(lb) is int and la == lb:
            return a
        la = z3.BitVecVal(la, 64) if type(la) is int else la
        lb = z3.BitVecVal(lb, 64) if type(lb) is int else lb
        return Slice(a.obj, a.path, a.off, z3.If(g, la, lb), a.cap)
    if ta is Closure and tb is Closure and a.fn == b.fn and len(a.fv) == len(b.fv):
        fv = _merge(g, a.fv, b.fv)
        return a if fv is a.fv else Closure(a.fn, fv)
    if ta is tb and ta is not tuple:
        try:
            if a == b:
                return a
        except Exception:
            pass
    return mk_union([(g, a), (NOT(g), b)])


def alts_of(v):
    """[(guard, plain value)]"""
    if type(v) is Union:
        return v.alts
    return [(True, v)]


def lift1(v, f):
    """apply a pure function to every alternative of v and merge"""
    if type(v) is not Union:
        return f(v)
    return mk_union([(g, f(x)) for g, x in v.alts])


def lift2(a, b, f):
    if type(a) is not Union and type(b) is not Union:
        return f(a, b)
    return mk_union([(AND(g1, g2), f(x, y)) for g1, x in alts_of(a) for g2, y in alts_of(b)])


def nav(v, path):
    """navigate nested tuples; lifts through unions"""
    if not path:
        return v
    if type(v) is Union:
        return mk_union([(g, nav(x, path)) for g, x in v.alts])
    return nav(v[path[0]], path[1:])


def upd(v, path, new, g=True):
    """functional update of v at path with new (only when g holds)"""
    if not path:
        return merge(g, new, v)
    if type(v) is Union:
        return mk_union([(gg, upd(x, path, new, g)) for gg, x in v.alts])
    i = path[0]
    return v[:i] + (upd(v[i], path[1:], new, g),) + v[i + 1:]
