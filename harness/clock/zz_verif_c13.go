package clock

import (
	"sort"
	"time"
)

// insertion sort over the same Less/Swap (stands in for sort.Sort in the symbolic run; stability is not assumed)
func verifSort(data sort.Interface) {
	n := data.Len()
	for i := 1; i < n; i++ {
		for j := i; j > 0 && data.Less(j, j-1); j-- {
			data.Swap(j, j-1)
		}
	}
}

// C13.a: the mock clock delivers to exactly the timers that are due, exactly once, with the new time;
// the others stay pending and fire at a later move.
var verifMaxTimers = 2

func VerifC13a_MockSet3() {
	verifMaxTimers = 3
	VerifC13a_MockSet()
}

func VerifC13a_MockSet() {
	t0 := int64(10)
	m := NewMockAt(time.Unix(0, t0))
	var due [3]int64
	var chs [3]<-chan time.Time
	n := verifNondetInt("timers", 0, verifMaxTimers)
	for i := 0; i < n; i++ {
		due[i] = int64(verifChoice("due", 9, 13))
		if i == 1 {
			chs[i] = m.After(time.Duration(due[i] - t0))
		} else {
			chs[i] = m.Until(time.Unix(0, due[i]))
		}
		if due[i] <= t0 {
			verifAssert(len(chs[i]) == 1, "a timer that is already due fires at once")
			v := <-chs[i]
			verifAssert(v.UnixNano() >= due[i], "a timer never delivers a time before its due time")
		} else {
			verifAssert(len(chs[i]) == 0, "a timer that is not due does not fire")
		}
	}
	verifReach("armed")
	t1 := int64(verifChoice("t1", 10, 12))
	m.Set(time.Unix(0, t1))
	verifAssert(m.Now().UnixNano() == t1, "Now reports the time that was set")
	t2 := int64(verifChoice("t2", 10, 14))
	verifAssume(t2 >= t1)
	for i := 0; i < n; i++ {
		if due[i] <= t0 {
			continue
		}
		if due[i] <= t1 {
			verifAssert(len(chs[i]) == 1, "every timer due at the new time fires exactly once")
			if len(chs[i]) == 1 {
				v := <-chs[i]
				verifAssert(v.UnixNano() == t1, "a due timer is sent the new time")
			}
		} else {
			verifAssert(len(chs[i]) == 0, "a timer that is not yet due does not fire")
		}
	}
	m.Set(time.Unix(0, t2))
	for i := 0; i < n; i++ {
		if due[i] <= t1 {
			verifAssert(len(chs[i]) == 0, "a timer that has fired never fires again")
		} else if due[i] <= t2 {
			verifAssert(len(chs[i]) == 1, "a pending timer is not lost: it fires at the later move")
		}
	}
	select {
	case c := <-m.Changes():
		verifAssert(c.UnixNano() == t2, "changes keeps only the latest time")
	default:
		verifAssert(false, "changes holds the latest time")
	}
	verifReach("done")
}
