package bpmn

// Shared harness machinery: schema literals, a synchronous stub tracer, a counting id generator,
// and the condition oracle that stands in for the expression engines.

import (
	"context"
	"sync"
	"time"

	"github.com/olive-io/bpmn/schema"
	"github.com/olive-io/bpmn/v2/pkg/id"
	"github.com/olive-io/bpmn/v2/pkg/tracing"
)

// ---------------------------------------------------------------------------- ids
type verifId struct{ n int }

func (i *verifId) Bytes() []byte  { return []byte{byte(i.n)} }
func (i *verifId) String() string { return "id" + string(rune('0'+i.n)) }

type verifIdGen struct {
	mu sync.Mutex
	n  int
}

func (g *verifIdGen) Snapshot() ([]byte, error) { return nil, nil }
func (g *verifIdGen) New() id.Id {
	if verifSymbolic() {
		g.n++
		return &verifId{n: g.n}
	}
	g.mu.Lock()
	defer g.mu.Unlock()
	g.n++
	return &verifId{n: g.n}
}

// ---------------------------------------------------------------------------- tracer stub
// Symbolic runs use this synchronous broadcaster (Send = atomic append to every subscriber queue and a
// call of the hook); its contract is what C09 establishes for the real tracer.  Native replays use the
// real tracer with a subscriber goroutine feeding the same hook.
type verifSender struct{ t *verifTracer }

func (s verifSender) Done() { s.t.senders-- }

type verifTracer struct {
	subs    []chan tracing.ITrace
	hook    func(tracing.ITrace)
	done    chan struct{}
	senders int64 // handles registered and not yet released (the real tracer terminates only when this is 0)
}

// sendersReleased: every sender handle registered with the instance's inner tracer has been released.  Symbolically the
// stub's balance; natively the real tracer's observable consequence (it terminates after cancellation iff the balance is 0).
func (inst *verifInst) sendersReleased() bool {
	if t, ok := inst.proc.subTracer.(*verifTracer); ok {
		return t.senders == 0
	}
	select {
	case <-inst.proc.subTracer.Done():
		return true
	case <-time.After(2 * time.Second):
		return false
	}
}

func (t *verifTracer) Subscribe() chan tracing.ITrace {
	return t.SubscribeChannel(make(chan tracing.ITrace, 64))
}
func (t *verifTracer) SubscribeChannel(ch chan tracing.ITrace) chan tracing.ITrace {
	verifYield() // subscribing is a scheduling point: traces sent before it are not seen by this subscriber
	t.subs = append(t.subs, ch)
	return ch
}
func (t *verifTracer) Unsubscribe(ch chan tracing.ITrace) {
	out := make([]chan tracing.ITrace, 0, len(t.subs))
	for _, s := range t.subs {
		if s != ch {
			out = append(out, s)
		}
	}
	t.subs = out
}
func (t *verifTracer) Send(tr tracing.ITrace) {
	if t.hook != nil {
		t.hook(tr)
	}
	for _, s := range t.subs {
		verifPushTrace(s, tr)
	}
}
func (t *verifTracer) RegisterSender() tracing.ISenderHandle {
	t.senders++
	return verifSender{t: t}
}
func (t *verifTracer) Done() chan struct{} { return t.done }

// verifPushTrace: invisible (non-scheduling) append to a subscriber queue; natively a plain send.
func verifPushTrace(ch chan tracing.ITrace, tr tracing.ITrace) { ch <- tr }

// replacements used by the symbolic runs (see overrides in checks/*.py)
func verifNewTracer(ctx context.Context) tracing.ITracer {
	return &verifTracer{done: make(chan struct{})}
}

func verifNewRelay(ctx context.Context, in, out tracing.ITracer, transformer tracing.Transformer) {
	in.(*verifTracer).hook = func(tr tracing.ITrace) {
		for _, t := range transformer(tr) {
			out.Send(t)
		}
	}
}

// verifMkTracer gives the harness a tracer whose traces reach hook: the stub symbolically, the real
// tracer plus a subscriber goroutine natively.
func verifMkTracer(ctx context.Context, hook func(tracing.ITrace)) tracing.ITracer {
	if verifSymbolic() {
		return &verifTracer{done: make(chan struct{}), hook: hook}
	}
	t := tracing.NewTracer(ctx)
	ch := t.SubscribeChannel(make(chan tracing.ITrace, 256))
	go func() {
		for tr := range ch {
			hook(tr)
		}
	}()
	return t
}

// ---------------------------------------------------------------------------- condition oracle
// Sequence-flow conditions are formal expressions "<flow id>" evaluated by the real expr engine natively
// (the harness stores a boolean variable of that name); symbolically executeSequenceFlow is replaced by
// this oracle, which returns the same boolean (a solver variable).
var verifCond = map[string]bool{}
var verifCondErr = map[string]bool{}

type verifCondError struct{}

func (verifCondError) Error() string { return "condition evaluation failed" }

func verifExecSeqFlow(f *flow, ctx context.Context, sf *SequenceFlow, unconditional bool) (bool, error) {
	if unconditional {
		return true, nil
	}
	if _, present := sf.SequenceFlow.ConditionExpression(); !present {
		return true, nil
	}
	idp, _ := sf.Id()
	if verifCondErr[*idp] {
		return false, verifCondError{}
	}
	return verifCond[*idp], nil
}

// ---------------------------------------------------------------------------- schema literals
type verifB struct {
	p    schema.Process
	vars map[string]any
}

func verifNewB(pid string) *verifB {
	b := &verifB{p: schema.DefaultProcess(), vars: map[string]any{}}
	b.p.SetId(&pid)
	return b
}

func verifQ(ids []string) []schema.QName {
	out := make([]schema.QName, 0, len(ids))
	for _, s := range ids {
		out = append(out, schema.QName(s))
	}
	return out
}

func (b *verifB) node(n *schema.FlowNode, nid string, in, out []string) {
	n.SetId(&nid)
	n.SetIncomings(verifQ(in))
	n.SetOutgoings(verifQ(out))
}

// flow adds a sequence flow; cond == "" means no condition expression, otherwise a formal expression
// whose text is the flow id (its truth value is verifCond[id] / variable id).
func (b *verifB) flow(fid, src, dst string, conditional bool) {
	sf := schema.DefaultSequenceFlow()
	sf.SetId(&fid)
	sf.SetSourceRef(src)
	sf.SetTargetRef(dst)
	if conditional {
		fe := schema.DefaultFormalExpression()
		fe.SetTextPayload(fid)
		sf.SetConditionExpression(&schema.AnExpression{Expression: &fe})
	}
	b.p.SequenceFlowField = append(b.p.SequenceFlowField, sf)
}

func (b *verifB) start(nid string, out ...string) {
	e := schema.DefaultStartEvent()
	b.node(&e.FlowNode, nid, nil, out)
	b.p.StartEventField = append(b.p.StartEventField, e)
}

func (b *verifB) end(nid string, in ...string) {
	e := schema.DefaultEndEvent()
	b.node(&e.FlowNode, nid, in, nil)
	b.p.EndEventField = append(b.p.EndEventField, e)
}

func (b *verifB) task(nid string, in, out []string) {
	e := schema.DefaultTask()
	b.node(&e.FlowNode, nid, in, out)
	b.p.TaskField = append(b.p.TaskField, e)
}

func (b *verifB) parallel(nid string, in, out []string) {
	e := schema.DefaultParallelGateway()
	b.node(&e.FlowNode, nid, in, out)
	b.p.ParallelGatewayField = append(b.p.ParallelGatewayField, e)
}

func (b *verifB) exclusive(nid string, in, out []string, def string) {
	e := schema.DefaultExclusiveGateway()
	b.node(&e.FlowNode, nid, in, out)
	if def != "" {
		e.SetDefault(&def)
	}
	b.p.ExclusiveGatewayField = append(b.p.ExclusiveGatewayField, e)
}

func (b *verifB) inclusive(nid string, in, out []string, def string) {
	e := schema.DefaultInclusiveGateway()
	b.node(&e.FlowNode, nid, in, out)
	if def != "" {
		e.SetDefault(&def)
	}
	b.p.InclusiveGatewayField = append(b.p.InclusiveGatewayField, e)
}

func (b *verifB) eventBased(nid string, in, out []string) {
	e := schema.DefaultEventBasedGateway()
	b.node(&e.FlowNode, nid, in, out)
	b.p.EventBasedGatewayField = append(b.p.EventBasedGatewayField, e)
}

// cond registers the truth value of a conditional flow for both worlds
func (b *verifB) cond(fid string, v bool) {
	verifCond[fid] = v
	b.vars[fid] = v
}

func (b *verifB) defs() *schema.Definitions {
	d := schema.DefaultDefinitions()
	lang := "https://github.com/expr-lang/expr"
	d.ExpressionLanguageField = &lang
	d.ProcessField = append(d.ProcessField, b.p)
	return &d
}

// ---------------------------------------------------------------------------- instance under test
type verifInst struct {
	ctx     context.Context
	cancel  context.CancelFunc
	defs    *schema.Definitions
	proc    *Process
	tasks   chan *taskTrace // pending task requests, in the order they were traced
	visits  map[string]int64
	errs    int64
	ceased  int64
	onTrace func(tracing.ITrace)
}

// verifStartInst builds a real Process from the literal with the stub/real tracer and the counting id
// generator.  Every TaskTrace is queued on inst.tasks (capacity 16).
func verifNewInst(b *verifB) *verifInst {
	inst := &verifInst{tasks: make(chan *taskTrace, 16), visits: map[string]int64{}}
	inst.ctx, inst.cancel = context.WithCancel(context.Background())
	inst.defs = b.defs()
	var mu sync.Mutex
	hook := func(tr tracing.ITrace) {
		tr = tracing.Unwrap(tr)
		if !verifSymbolic() {
			mu.Lock()
			defer mu.Unlock()
		}
		switch t := tr.(type) {
		case *taskTrace:
			idp, _ := t.activity.Element().Id()
			inst.visits[*idp]++
			verifLog("task", *idp)
			verifPushTask(inst.tasks, t)
		case ErrorTrace:
			inst.errs++
			verifLog("error")
		case CeaseFlowTrace:
			inst.ceased++
			verifLog("cease")
		case CompletionTrace:
			idp, _ := t.Node.Id()
			inst.visits["done:"+*idp]++
		}
		if inst.onTrace != nil {
			inst.onTrace(tr)
		}
	}
	tracer := verifMkTracer(inst.ctx, hook)
	opts := []Option{WithContext(inst.ctx), WithTracer(tracer), WithIdGenerator(&verifIdGen{})}
	if len(b.vars) > 0 {
		opts = append(opts, WithVariables(b.vars))
	}
	p, err := NewProcess(&inst.defs.ProcessField[0], inst.defs, opts...)
	if err != nil {
		verifAssert(false, "NewProcess failed on a well-formed literal")
		return inst
	}
	inst.proc = p
	return inst
}

func verifPushTask(ch chan *taskTrace, t *taskTrace) { ch <- t }

func (inst *verifInst) count(k string) int64 { return inst.visits[k] }

// ---------------------------------------------------------------------------- sinks and tokens
// verifSink replaces a downstream node: it records the visit and consumes the token.
type verifSink struct {
	elem schema.FlowNodeInterface
	hits *int64
}

func (s *verifSink) NextAction(ctx context.Context, flow Flow) chan IAction {
	verifAdd(s.hits, 1)
	ch := make(chan IAction, 1)
	verifPushAction(ch, noAction{})
	return ch
}
func (s *verifSink) Element() schema.FlowNodeInterface { return s.elem }

func verifPushAction(ch chan IAction, a IAction) { ch <- a }

func (inst *verifInst) elem(nid string) schema.FlowNodeInterface {
	e, found := inst.defs.ProcessField[0].FindBy(schema.ExactId(nid).And(schema.ElementInterface((*schema.FlowNodeInterface)(nil))))
	if !found {
		verifAssert(false, "harness: element not found")
		return nil
	}
	return e.(schema.FlowNodeInterface)
}

// sinkAt replaces the node registered for element nid by a sink counting into hits
func (inst *verifInst) sinkAt(nid string, hits *int64) {
	inst.proc.flowNodeMapping.mapping[nid] = &verifSink{elem: inst.elem(nid), hits: hits}
}

func (inst *verifInst) nodeAt(nid string) IFlowNode {
	n, _ := inst.proc.flowNodeMapping.ResolveElementToFlowNode(inst.elem(nid))
	return n
}

// tokenAt starts a real flow goroutine positioned at node nid (as if it had just arrived there)
func (inst *verifInst) tokenAt(nid string, viaFlow string) *flow {
	p := inst.proc
	fl := newFlow(inst.defs, inst.nodeAt(nid), p.subTracer, p.flowNodeMapping, &p.flowWaitGroup, p.idGenerator, nil, p.locator)
	if viaFlow != "" {
		fl.sequenceFlowId = &viaFlow
	}
	fl.Start(inst.ctx)
	return fl
}
