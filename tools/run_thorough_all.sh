#!/bin/bash
# runs every registered thorough check once (long); prints exit code and summary line per property
cd "$(dirname "$0")/.."
for P in $(python3 -c "import json;print(' '.join(c['property_id'] for c in json.load(open('MANIFEST.json'))['checks']))"); do
  S=$(date +%s); OUT=$(VERIF_EVIDENCE_DIR=${VERIF_EVIDENCE_DIR:-/tmp/ev_thorough} ./check $P --tier thorough 2>&1); RC=$?; E=$(date +%s)
  echo "$P rc=$RC $((E-S))s | $(echo "$OUT" | tail -1)"
  echo "$OUT" | grep "^VIOLATION\|^UNCONFIRMED" | cut -c1-200
done
