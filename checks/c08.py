from common import STD
PROPERTY = "C08"
EXPLANATION = ("Bounded symbolic execution of the real taskTrace.Do / taskTrace.process / timeout goroutine under a "
               "symbolic scheduler (every channel operation is a scheduling point, the choice at each step is an SMT variable).")
ASSUMPTIONS = ["task timeout = 0 in C08.a (the timeout goroutine returns immediately)",
               "C08.c: the task node is a stand-in answering every request with an error and the chosen handler; flow loop, retry arithmetic and error traces are the real code; tracer replaced by the synchronous stub",
               "C08.b: ApplyTaskResult / ApplyTaskDataOutput executed sequentially with symbolic declaration and supply sets; the path from an answer through genericTask.run into the locator is covered only by the C01 task scenarios (no results)"]
SCENARIOS = [
    dict(name="C08.a Do x1", entry="VerifC08a_Do1", K=40, reach=["quiescent"], bounds="1 Do call, 1 consumer",
         expect_obligations=["every Do call returns", "the consumer receives exactly one response"]),
    dict(name="C08.a Do x2 concurrent", entry="VerifC08a_Do2", K=40, reach=["quiescent"], bounds="2 concurrent Do calls",
         expect_obligations=["every Do call returns", "the consumer receives exactly one response"]),
    dict(name="C08.a Do x3 concurrent", entry="VerifC08a_Do3", K=40, reach=["quiescent"], bounds="3 concurrent Do calls",
         expect_obligations=["every Do call returns", "the consumer receives exactly one response"]),
    dict(name="C08.a Do x2 + cancel", entry="VerifC08a_Do2Cancel", K=40, reach=["quiescent"], bounds="2 concurrent Do calls, context cancelled at an arbitrary step",
         expect_obligations=["every Do call returns", "the consumer receives exactly one response"]),
    dict(name="C08.c retry", entry="VerifC08c_Retry", K=90, reach=["quiescent"], overrides=STD, native=False,
         bounds="a task that keeps failing with a retry handler, retry count 0..2 (solver's choice), task definition default 2",
         expect_obligations=["retry: the task is re-requested exactly the given number of additional times while it keeps failing"]),
    dict(name="C08.c retry count 0", entry="VerifC08c_Retry0", K=90, reach=["quiescent"], overrides=STD, native=False, bounds="retry handler with count 0 (task definition default 2)",
         expect_obligations=["retry: the task is re-requested exactly the given number of additional times while it keeps failing"]),
    dict(name="C08.c retry count 1", entry="VerifC08c_Retry1", K=90, reach=["quiescent"], overrides=STD, native=False, bounds="retry handler with count 1",
         expect_obligations=["retry: the task is re-requested exactly the given number of additional times while it keeps failing"]),
    dict(name="C08.c retry count 2", entry="VerifC08c_Retry2", K=90, reach=["quiescent"], overrides=STD, native=False, bounds="retry handler with count 2",
         expect_obligations=["retry: the task is re-requested exactly the given number of additional times while it keeps failing"]),
    dict(name="C08.c skip", entry="VerifC08c_Skip", K=60, reach=["quiescent"], overrides=STD, native=False, bounds="error + skip handler",
         expect_obligations=["no handler or skip: the token continues after the error trace"]),
    dict(name="C08.c exit", entry="VerifC08c_Exit", K=60, reach=["quiescent"], overrides=STD, native=False, bounds="error + exit handler",
         expect_obligations=["exit: the token stops"]),
    dict(name="C08.c no handler", entry="VerifC08c_NoHandler", K=60, reach=["quiescent"], overrides=STD, native=False, bounds="error without handler",
         expect_obligations=["no handler or skip: the token continues after the error trace"]),
    dict(name="C08.b declared-only storage", entry="VerifC08b_DeclaredOnly", K=20, reach=["built"], sequential=True, max_instr=3000000,
         bounds="3 names x declared/undeclared (declared type integer, string or none) x supplied/not supplied, results extension present/absent, 64-bit symbolic values",
         expect_obligations=["exactly the declared and supplied result fields are stored", "exactly the declared and supplied data outputs are stored"]),
    dict(name="C08.d results and data outputs in one answer", entry="VerifC08d_ResultsAndObjects", K=80, reach=["quiescent"], overrides=STD, native=False,
         bounds="a successful answer carrying a data output and/or a result field (all 4 combinations), 64-bit symbolic value; stand-in task node, real flow loop and locator",
         expect_obligations=["a declared result field of the answer is stored as a variable (and nothing else is)",
                             "a declared data output of the answer is stored as a data object (and nothing else is)"]),
]
