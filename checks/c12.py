from common import STD, ROOT
PROPERTY = "C12"
EXPLANATION = ("Real sub-process node (newSubProcess constructor with an inner start -> end program, subProcess.NextAction / run / startAll / "
               "ceaseFlowMonitor, inner start and end events, inner flow), the real activity harness around it and the parent's flow loop, in an "
               "instance built by NewProcess; a recording sink follows the sub-process; the scheduler is symbolic. "
               "Comparison with the inlined program over all C01 programs, nesting depth > 1 and re-entry are not covered.")
ASSUMPTIONS = ["tracers replaced by the synchronous stub whose Subscribe is a scheduling point (contract established by C09)",
               "inner program fixed: start event -> end event; one parent token; depth 1",
               "relay scenario: subProcess.startAll replaced by a no-op and the inner instance by harness-emitted traces on the inner tracer (so the inner completion monitor, which the design probes showed to report on the wrong tracer, is NOT part of this scenario)"]
SCENARIOS = [
    dict(name="C12 inner activity kinds", entry="VerifC12_InnerActivityKinds", K=60, reach=["built"], overrides=STD, max_instr=4000000,
         expect_obligations=["an activity inside a sub-process is the same kind of node (requested with the same activity type) as inline"],
         bounds="9 activity kinds (solver's choice), one activity inline and one inside a sub-process; construction by NewProcess / newSubProcess"),
    dict(name="C12 relay: release only on inner completion", entry="VerifC12_RelayRelease", K=80, reach=["quiescent"], native=False,
         overrides=dict(STD, **{"(*%s.subProcess).startAll" % ROOT: "verifSubStartAll"}),
         expect_obligations=["the parent's token does not continue while the inner instance has not reported that no token remains",
                             "the parent's token continues exactly once when the inner instance has completed"],
         bounds="real subProcess.NextAction/run relay loop; the inner instance is a stand-in: the harness emits CompletionTrace, TerminationTrace, then CeaseFlowTrace on the inner tracer"),
    dict(name="C12 completion report reaches the waiting node", entry="VerifC12_CompletionReport", K=100, reach=["quiescent"],
         overrides=dict(STD, **{"(*%s.subProcess).startAll" % ROOT: "verifSubStartAllDone"}),
         expect_obligations=["the parent's token continues past the sub-process once every inner token is consumed", "the parent's token continues past the sub-process at most once"],
         bounds="real flow into the real harness + subProcess.NextAction/run/ceaseFlowMonitor; the inner instance start -> end is a stand-in that has completed at once (emits the start event's FlowTrace and the end event's CompletionTrace); natively the real inner instance runs"),
    dict(name="C12 sub-process (start -> end inside), one parent token", entry="VerifC12_Basic", K=160, reach=["quiescent"], overrides=STD, tiers=("thorough",),
         expect_obligations=["the parent's token continues past the sub-process once every inner token is consumed"],
         bounds="one sub-process containing start -> end, one parent token, all interleavings", time_budget_s=1500),
]
