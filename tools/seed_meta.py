"""writes /verif/seeded/<id>/meta.json from the sweep logs given as arguments + the notes below; prints the DESIGN.md table"""
import json, os, re, sys
NEEDS = {
 "C01-m1": "a token reaching the same parallel gateway a second time (loop around a parallel block)",
 "C01-m2": "a flow with a warm condition cache + a sibling branch writing the variable + a particular answer order",
 "C02-m1": "the waiter goroutine takes the completion mutex before the monitor goroutine does (schedule-dependent, ~0.1-0.6% of start-ups)",
 "C02-m2": "a fork whose first branch ends before the sibling flow's goroutine is scheduled",
 "C03-m1": "the same parallel gateway entered at least twice in one instance",
 "C03-m2": "a parallel gateway with at least two more incoming than outgoing flows",
 "C04-m1": "a default flow that is not last in the gateway's outgoing list with a true condition listed after it",
 "C04-m2": "more concurrent tokens than incoming flows and a full gateway mailbox when an early probe report is popped",
 "C05-m1": "an activated branch that ends in its own end event and finishes last",
 "C05-m2": "a default flow that is not last in the list with a true-conditioned flow after it",
 "C06-m1": "competing events delivered simultaneously from different goroutines (~1 in 1000 deliveries)",
 "C06-m2": "the winner is determined before a loser's flow has parked on its termination channel",
 "C07-m1": "more than 10 traces after the cancel (relay's subscription left on the inner tracer)",
 "C07-m2": "a parallel gateway visited twice before cancellation (sender registered per token, released once)",
 "C08-m1": "two Do calls on one request interleaved Do1.send, Do2.check, close(done), Do2.send",
 "C08-m2": "RetryMode with retry count 0 on a task whose definition declares retries > 0",
 "C09-m1": "a cancellable context cancelled while a registered sender still has traces to send",
 "C09-m2": "a subscriber whose buffer is full at fan-out time (buffer 0..2 or a slow consumer)",
 "C10-m1": "the host task answered with an error that is not retried, then a matching event",
 "C10-m2": "a burst of events faster than the boundary listener drains its capacity-1 inbox",
 "C11-m1": "a catch event reached after exactly 3 events were handed to the instance (obsolete after the C11 fix: events for unreached nodes are dropped)",
 "C11-m2": "more events than the listener's inbox holds, delivered faster than it processes them",
 "C12-m1": "a send task inside an embedded sub-process and an observer comparing activity types with the inline program",
 "C12-m2": "more than one inner token ending at different times",
 "C13-m1": "a single clock jump spanning two or more intervals of a cycle timer",
 "C13-m2": "a cycle timer with an explicit start, armed while already overdue (one jump beyond start + 2 intervals)",
 "C14-m1": "a parallel-multiple catch with >= 3 definitions and >= 5 events",
 "C14-m2": "3 definitions, 3 open chains, shortest violating history has length 9",
 "C15-m1": "a data object whose JSON contains '<', a bare '&' or entity-looking text",
 "C15-m2": "a parsed formal expression that is serialised and re-read",
 "C16-m1": "an integer-kind value whose type has a String method (time.Duration, enums)",
 "C16-m2": "the same WithVariables option value reused for two instances, one writing a variable the other reads",
 "C17-m1": "an inclusive join whose sibling token terminates concurrently with the join's cohort lookup (data race, -race only)",
 "C17-m2": "event deliveries from user goroutines overlapping task activation/completion (data race, -race only)",
 "C18-m1": "WaitUntilComplete's wait goroutine scheduled before the tracker goroutines reach wg.Add",
 "C18-m2": "two message-instantiated processes alive at the same time",
 "C19-m1": "two consecutive AddActivity calls of the same Go type where the second append reallocates",
 "C19-m2": "definitions with >= 3 processes laid out",
 "C20-m1": "pool exhausted with a draw blocked, snapshot taken in that state, draw from the restored generator within the same 4 ms unit",
 "C20-m2": "two goroutines inside fallbackGenerator.New interleaved add/add/load/load",
 "C02-m3": "a waiter whose context expires before the helper goroutine obtains the completion lock, then another waiter (the helper blocks forever holding the lock)",
 "C02-m4": "a parallel join with more incoming than outgoing flows (surplus tokens are never told to stop)",
 "C03-m3": "a token descheduled between asking the gateway and waiting for its answer (non-blocking hand-off loses the wake-up)",
 "C03-m4": "a parallel gateway with as many outgoing as incoming flows (>= 2) - absolute instead of relative flow indices",
 "C04-m4": "an exclusive gateway whose default flow is taken, then entered again by another token",
 "C08-m3": "one answer carrying both a data output and a result field",
 "C08-m4": "a result field declared with an item type different from the supplied value's kind",
 "C13-m3": "a timer due at an instant outside the int64-nanosecond range (year > 2262)",
 "C13-m4": "the same catch event reached by a second token after the first was released",
 "C16-m3": "a stored array/object read twice, the first reader mutating what it was handed",
 "C16-m4": "a task result for a result field whose declaration leaves the item type empty",
 "C19-m3": "one ProcessBuilder used for a second process after Out()",
 "C19-m4": "a layout configuration whose row gap is zero",
 "C20-m3": "two goroutines drawing from one sno generator concurrently",
 "C20-m4": "two sno generators created within the same clock unit",
 "C01-m5": "an exclusive split whose default flow is not the last outgoing entry and whose first true condition is listed after the default",
 "C05-m5": "an inclusive fork with an empty bypass flow straight to the join and a slow trace subscriber (tracker unlocks before it saw the fork's FlowTrace)",
 "C06-m5": "a late delivery of the event of an already withdrawn losing alternative (sequential history of >= 2 events)",
 "C09-m5": "a subscriber unsubscribing while the tracer is blocked sending to it (buffer 0, or buffer N with N+1 pending traces)",
 "C10-m5": "a host with only non-interrupting boundary events, answered, then a matching event",
 "C11-m5": "two catch events registered one after the other, the first has fired, the next event matches the second",
 "C12-m5": "the inner completion monitor of a sub-process subscribing after the inner start event's flow trace was relayed (about 3% of entries when the parent tracer is busy)",
 "C14-m5": "a chain completing while >= 2 chains are open, then an event that forces a new chain (shortest history: a a b a b b)",
 "C17-m5": "two condition evaluations in the same expression language overlapping in time",
 "C18-m5": "two or more concurrent WaitUntilComplete calls of a process set released together",
}
BY = {  # caught by another property's quick check (run with tools/mutant_sweep.sh <seed>@<property>)
 "C01-m1": "C03", "C10-m2": "C11", "C16-m4": "C08", "C13-m4": "C11", "C02-m4": "C03", "C01-m5": "C04", "C06-m5": "C11",
}
WHY_MISSED = {
 "C04-m2": "needs 3 concurrent tokens at one gateway (scenario does not close; with the change the gateway busy-loops)",
 "C07-m1": "needs the real inner tracer + relay across a cancellation with more traces than the relay's subscription holds: the three scenarios written for it (thorough tier) do not close",
 "C13-m3": "instants outside the int64-nanosecond range are outside the model (time.Time is an int64 of nanoseconds)",
 "C14-m2": "shortest violating history has length 9; the L=9 scenarios (thorough) do not close in 30 min",
 "C15-m1": "pure encoding/xml behaviour: outside the claimed sub-claims",
 "C18-m2": "needs two message-instantiated processes alive at once (thorough scenario 'message flow, 2 throws' does not close in the quick budget)",
}
results = {}
for f in sys.argv[1:]:
    if not os.path.exists(f):
        continue
    for line in open(f):
        m = re.match(r"RESULT (C\d\d-m\d(?:@C\d\d)?) (.*)", line)
        if m:
            results[m.group(1)] = m.group(2).strip()
root = "/verif/seeded"
rows = []
for d in sorted(os.listdir(root)):
    p = os.path.join(root, d)
    if not os.path.isdir(p):
        continue
    r = results.get(d, "not run against the checks")
    caught = ("rc=1" in r and "violations=0 " not in r)
    by = ""
    if not caught and d in BY:
        r2 = results.get(d + "@" + BY[d], "")
        if "rc=1" in r2 and "violations=0 " not in r2:
            caught, by, r = True, "by %s's check" % BY[d], r2
    meta = dict(id=d, property=d.split("-")[0], needs=NEEDS.get(d, ""),
                confirmed="tools/seed_confirm.sh in a scratch worktree of /repo HEAD: existing suite passes with the change; demonstration passes without the change and fails with it",
                check_run="tools/mutant_sweep.sh: git -C /repo apply patch.diff; ./check %s --tier quick; git -C /repo checkout -- ." % d.split("-")[0],
                check_result=r, caught_by_quick_check=caught)
    json.dump(meta, open(os.path.join(p, "meta.json"), "w"), indent=1)
    meta["caught_by"] = by or (d.split("-")[0] if caught else "")
    json.dump(meta, open(os.path.join(p, "meta.json"), "w"), indent=1)
    rows.append((d, NEEDS.get(d, ""), "caught" if caught else "MISSED", by if caught else WHY_MISSED.get(d, "")))
print("| seeded change | what it needs to manifest | quick tier | detail |")
print("|---|---|---|---|")
for row in rows:
    print("| %s | %s | %s | %s |" % row)
print()
print("%d of %d confirmed seeded changes are caught by a quick check." % (sum(1 for r in rows if r[2] == "caught"), len(rows)))
