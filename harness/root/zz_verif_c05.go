package bpmn

import (
	"github.com/olive-io/bpmn/schema"
	"github.com/olive-io/bpmn/v2/pkg/id"
	"github.com/olive-io/bpmn/v2/pkg/tracing"
)

// C05.a: inclusive gateway fork decision - a token on every outgoing flow whose condition is true, the default flow alone
// if none is, an error trace if there is neither.  Real newInclusiveGateway / run / trySync / flowTracker / distributeFlows
// and the real flow loop (probeAction and flowAction arms); conditions are solver variables, sinks stand for the branches.
func verifC05(n, defPos int) {
	b := verifNewB("p")
	outs := make([]string, 0, 5)
	for i := 0; i < n; i++ {
		if i == defPos {
			outs = append(outs, "fd")
		}
		outs = append(outs, verifFlowNames[i])
	}
	if defPos >= n {
		outs = append(outs, "fd")
	}
	def := ""
	if defPos >= 0 {
		def = "fd"
	}
	// the token reaches the gateway through a real sequence flow from a pass-through node, so that the gateway's flow
	// tracker observes its arrival (FlowTrace into the gateway) as it would in a running instance
	b.catchSignal("pre", "go", []string{"in0"}, []string{"in"})
	b.flow("in0", "s", "pre", false)
	b.flow("in", "pre", "gw", false)
	b.inclusive("gw", []string{"in"}, outs, def)
	var c [4]bool
	for i := 0; i < n; i++ {
		b.flow(verifFlowNames[i], "gw", verifTaskNames[i], true)
		b.task(verifTaskNames[i], []string{verifFlowNames[i]}, nil)
		c[i] = verifNondetBool("c")
		b.cond(verifFlowNames[i], c[i])
	}
	if defPos >= 0 {
		b.flow("fd", "gw", "td", false)
		b.task("td", []string{"fd"}, nil)
	}
	inst := verifNewInst(b)
	if inst.proc == nil {
		return
	}
	var hits [4]int64
	var hitDef int64
	for i := 0; i < n; i++ {
		inst.sinkAt(verifTaskNames[i], &hits[i])
	}
	if defPos >= 0 {
		inst.sinkAt("td", &hitDef)
	}
	inst.tokenAt("gw", "in")
	verifQuiesce()
	verifReach("quiescent")
	anyTrue := false
	for i := 0; i < n; i++ {
		anyTrue = verifOr(anyTrue, c[i])
		if c[i] {
			verifAssert(verifGet(&hits[i]) == 1, "a token is placed on every outgoing flow whose condition is true")
		} else {
			verifAssert(verifGet(&hits[i]) == 0, "no token is placed on a flow whose condition is false")
		}
	}
	if defPos >= 0 {
		if anyTrue {
			verifAssert(verifGet(&hitDef) == 0, "the default flow is not taken when a condition is true")
		} else {
			verifAssert(verifGet(&hitDef) == 1, "the default flow alone is taken when no condition is true")
		}
	}
	if !anyTrue && defPos < 0 {
		verifAssert(inst.errs == 1, "no true condition and no default: an error trace is emitted")
	} else {
		verifAssert(inst.errs == 0, "no error trace when a flow is taken")
	}
}

func VerifC05_n1_nodef() { verifC05(1, -1) }
func VerifC05_n2_nodef() { verifC05(2, -1) }
func VerifC05_n2_def0()  { verifC05(2, 0) }
func VerifC05_n2_def1()  { verifC05(2, 1) }
func VerifC05_n2_def2()  { verifC05(2, 2) }
func VerifC05_n3_def1()  { verifC05(3, 1) }
func VerifC05_n3_nodef() { verifC05(3, -1) }

// stand-ins used by the fork-decision scenarios: the gateway's picture of live tokens (flowTracker goroutine) is replaced
// by "the asking flow is the only live flow of its cohort", which is the situation of a single token reaching a forking gateway
func verifNewFlowTracker(tracer tracing.ITracer, element *schema.InclusiveGateway) *flowTracker {
	return &flowTracker{shutdownCh: make(chan bool, 1), flows: make(map[id.Id]schema.Id), activityCh: make(chan struct{}, 1), element: element}
}

func verifActiveFlowsInCohort(tracker *flowTracker, flowId id.Id) []id.Id { return []id.Id{flowId} }
