PROPERTY = "C19"
EXPLANATION = ("Real schema.NewProcessBuilder / AddActivity / link / Out and NewDefinitionsBuilder / AddProcess / AutoLayout (with the "
               "generated FindBy, FlowElements and accessors they call) executed symbolically: the Go type of every added activity and "
               "whether it carries a preset id are solver variables; the produced process is walked through its STORED elements.")
ASSUMPTIONS = ["RandBytes replaced by a counter: randomly generated ids are assumed pairwise distinct (uniqueness of random ids is probabilistic and not claimed)",
               "sort.Slice replaced by an insertion sort over the same less function",
               "layout configurations range over five listed concrete configurations incl. the documented defaults, one whose gaps equal the largest node sizes and one with all gaps zero (floating point is executed concretely, not symbolically)",
               "XML round trip and execution of the built model are not decided here"]
H = "schema"
OV = {"github.com/olive-io/bpmn/schema.RandBytes": "verifRandBytes", "sort.Slice": "verifSortSlice"}
EOA = ["activities are chained in insertion order", "the target lists the flow as its only incoming flow (stored copy)",
       "every node but the end lists exactly one outgoing flow (stored copy)", "ids are pairwise distinct"]


def a(k, t, tiers=("quick", "thorough")):
    return dict(name="C19.a well-formed k=%d types=%d" % (k, t), entry="VerifC19a_K%d%s" % (k, "" if k == 0 else "_T%d" % t), harness=H, K=10,
                sequential=True, overrides=OV, reach=["built", "checked"], tiers=tiers, max_instr=5000000,
                expect_obligations=EOA if k > 0 else ["the chain ends in the end event"],
                bounds="%d AddActivity calls, each over %d activity types x preset id present/absent (all combinations)" % (k, t))


def b(p, k, tiers=("quick", "thorough")):
    return dict(name="C19.b layout procs=%d k=%d" % (p, k), entry="VerifC19b_P%d_K%d" % (p, k), harness=H, K=10, sequential=True,
                overrides=OV, reach=["laid out", "checked"], tiers=tiers, max_instr=5000000,
                expect_obligations=["no two shapes overlap when the gaps are at least the node sizes", "every edge starts on its source shape",
                                    "exactly one shape per flow node", "exactly one edge per sequence flow"],
                bounds="%d processes x %d activities each, 5 layout configurations (incl. all gaps zero: finiteness only)" % (p, k))


REUSE = dict(a(2, 2), name="C19.a builder reused after Out()", entry="VerifC19a_Reuse_K2",
             bounds="one ProcessBuilder used for two processes (1 and 2 activities over 2 types x preset ids)")
REUSE_L = dict(b(2, 1), name="C19.b layout, builder reused", entry="VerifC19b_P2_K1_Reuse", bounds="2 processes from one reused builder, 5 layout configurations")
SCENARIOS = [REUSE, REUSE_L, a(0, 1), a(1, 10), a(2, 4), a(3, 2), a(5, 1), a(3, 3, ("thorough",)), a(4, 2, ("thorough",)), a(9, 1, ("thorough",)),
             b(1, 2), b(2, 1), b(3, 1), b(3, 2, ("thorough",))]
