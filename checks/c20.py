PROPERTY = "C20"
EXPLANATION = ("Real id.NewFallbackGenerator / fallbackGenerator.New with the clock as a solver variable (non-decreasing readings) "
               "and, for concurrent draws, every atomic operation a scheduling point of the symbolic scheduler.")
ASSUMPTIONS = ["time.Now returns arbitrary non-decreasing non-negative readings (two constructor calls may see the same reading)",
               "strconv.FormatInt/FormatUint are injective per base and emit no '-' for non-negative input, so ids built as prefix-separator-number are equal iff their formatted numbers are",
               "the muyo/sno generator (third-party) is covered by the C20.c/d scenarios only within their stated bounds",
               "C20.f: JSON (sonic) is uninterpreted with the contract Unmarshal(Marshal(v)) = v; distinctness of ids issued before a snapshot and after a restore is reduced to: the restore reproduces the snapshotted state exactly"]
H = "id"
# sno's "unsafe past" branch (several regressions before wallSafe is reached again) sleeps and retries: cut, outside the claim
CUT = {"time.Sleep": "$cut"}
SCENARIOS = [
    dict(name="C20.a two fallback generators", entry="VerifC20a_TwoFallback", harness=H, K=10, reach=["drawn"],
         bounds="2 generators x 2 draws, arbitrary non-decreasing clock readings",
         expect_obligations=["ids of two fallback generators created in one program are distinct"]),
    dict(name="C20.b fallback, 2 threads x 2 draws", entry="VerifC20b_T2_D2", harness=H, K=30, reach=["quiescent"],
         bounds="2 goroutines x 2 draws, all interleavings of the atomic operations",
         expect_obligations=["concurrent draws from one fallback generator are pairwise distinct"]),
    dict(name="C20.b fallback, 3 threads x 1 draw", entry="VerifC20b_T3_D1", harness=H, K=30, reach=["quiescent"],
         bounds="3 goroutines x 1 draw, all interleavings of the atomic operations",
         expect_obligations=["concurrent draws from one fallback generator are pairwise distinct"]),
    dict(name="C20.b fallback, 3 threads x 2 draws", entry="VerifC20b_T3_D2", harness=H, K=40, reach=["quiescent"], tiers=("thorough",),
         bounds="3 goroutines x 2 draws, all interleavings of the atomic operations",
         expect_obligations=["concurrent draws from one fallback generator are pairwise distinct"]),
    dict(name="C20.c sno, 3 sequential draws", entry="VerifC20c_Seq3", harness=H, K=30, reach=["drawn"], overrides=CUT,
         bounds="1 generator, 3 draws, an arbitrary 39-bit clock reading per draw (progress, standstill, regression)",
         expect_obligations=["consecutive sno ids of one generator are pairwise distinct"]),
    dict(name="C20.e two sno generators", entry="VerifC20e_TwoSno", harness=H, K=40, reach=["drawn"], overrides=CUT,
         bounds="2 generators x 2 draws, arbitrary clock readings",
         expect_obligations=["ids of two sno generators created in one program are distinct"]),
    dict(name="C20.d sno, concurrent 1+2 draws", entry="VerifC20d_Conc_1_2", harness=H, K=60, reach=["quiescent"],
         overrides={"time.Sleep": "$cut", "github.com/muyo/sno/internal.Snotime": "verifSnotimeMono2"},
         bounds="2 goroutines (1 and 2 draws), all interleavings of the generator's atomic operations, a monotonic clock whose readings range over two adjacent time units",
         expect_obligations=["concurrent sno ids of one generator are pairwise distinct"]),
    dict(name="C20.f restore from snapshot", entry="VerifC20f_Restore", harness=H, K=30, reach=["restored"], native=False,
         overrides={"time.Sleep": "$cut", "github.com/muyo/sno/internal.Snotime": "verifSnotimeFive"},
         bounds="symbolic snapshot: sequence in {2,3,40,41,45} (bounds 2..40, so incl. an exhausted pool), wallSafe 0..5, drifts 0..1; clock fixed at the snapshot's wallHi",
         expect_obligations=["the restored generator continues with the snapshot's sequence (also when the pool was exhausted)"]),
]
