PROPERTY = "C09"
EXPLANATION = ("The real tracer (NewTracer, run, SubscribeChannel, Unsubscribe, Send, RegisterSender, Done) under a symbolic scheduler: "
               "S sender goroutines, a reference subscriber that never leaves (its sequence is the tracer's total order) and U subscribers "
               "that join, take a solver-chosen number of traces and leave at arbitrary points of every interleaving.")
ASSUMPTIONS = ["documented usage: a subscriber keeps reading its channel until it has unsubscribed (Unsubscribe itself drains)",
               "the causality grammar of engine traces (visit before leave, FlowTrace before the new flows' first trace) is not decided here; it follows from the flow loop's program order (C01/C04 scenarios) composed with the per-sender FIFO result of this check",
               "termination of the tracer after cancellation is decided for one registered sender (C09.b scenarios); a sender that never reports Done keeps the tracer alive by design",
               "bounds: up to 3 senders and 4 traces in total, up to 2 joining/leaving subscribers, buffers 0..2 (the property's 1..8 senders / 1..4 subscribers are covered only to these sizes)"]
H = "tracing"
EO = ["every Send returns (no deadlock while the remaining subscribers keep consuming)",
      "a subscriber that stays subscribed receives every trace exactly once",
      "between subscribing and unsubscribing a subscriber sees a contiguous segment of the common order (nothing dropped, duplicated or reordered)"]


def sc(entry, name, bounds, tiers=("quick", "thorough"), K=90, eo=EO):
    return dict(name=name, entry=entry, harness=H, K=K, reach=["quiescent"], tiers=tiers, expect_obligations=eo, bounds=bounds)


T = ("thorough",)
SCENARIOS = [
    sc("VerifC09_S1x1_U1_B0_T0", "C09.a 1 sender x1, subscriber joins and leaves at once, unbuffered", "1 sender x 1 trace, 1 subscriber with buffer 0 that subscribes and unsubscribes without taking anything", eo=EO[:2]),
    sc("VerifC09_S1x1_U1_B0_T1", "C09.a 1 sender x1, subscriber joins, takes 1, leaves, unbuffered", "1 sender x 1 trace, 1 subscriber with buffer 0 that takes up to one trace before unsubscribing", eo=EO[:2]),
    sc("VerifC09_S1x1_U1_B0", "C09.a 1 sender x1, 1 subscriber, unbuffered", "1 sender x 1 trace, 1 joining/leaving subscriber with buffer 0 taking 0..1 (solver's choice)", eo=EO[:2], tiers=T),
    sc("VerifC09_S1x1_U1_B1", "C09.a 1 sender x1, 1 subscriber, buffer 1", "1 sender x 1 trace, 1 joining/leaving subscriber with buffer 1 taking 0..1", eo=EO[:2], tiers=T),
    sc("VerifC09_S1x2_U0", "C09.a 1 sender x2", "1 sender x 2 traces, reference subscriber only", eo=EO[:2] + ["each sender's program order is preserved"]),
    sc("VerifC09_S2x1_U0", "C09.a 2 senders x1", "2 senders x 1 trace, reference subscriber only", eo=EO[:2]),
    sc("VerifC09_Slow_S1x2_B0", "C09.a slow unbuffered subscriber, 1 sender x2", "1 sender x 2 traces, subscriber with buffer 0 joined up-front, consumer lags arbitrarily",
       eo=["a subscriber that stays subscribed receives every trace exactly once", "each sender's program order is preserved"]),
    sc("VerifC09_Slow_S1x2_B1", "C09.a slow subscriber with buffer 1, 1 sender x2", "1 sender x 2 traces, subscriber with buffer 1, consumer lags arbitrarily",
       eo=["a subscriber that stays subscribed receives every trace exactly once", "each sender's program order is preserved"]),
    sc("VerifC09_Slow_S1x3_B1", "C09.a slow subscriber with buffer 1, 1 sender x3", "1 sender x 3 traces, buffer 1", tiers=T,
       eo=["a subscriber that stays subscribed receives every trace exactly once", "each sender's program order is preserved"]),
    sc("VerifC09_S1x2_U1_B0", "C09.a 1 sender x2, 1 subscriber, unbuffered", "1 sender x 2 traces, 1 joining/leaving subscriber with buffer 0 taking 0..2", tiers=T),
    sc("VerifC09_S2x1_U1_B1", "C09.a 2 senders x1, 1 subscriber, buffer 1", "2 senders x 1 trace, 1 joining/leaving subscriber with buffer 1 taking 0..2", tiers=T),
    sc("VerifC09_S2x1_U1_B0", "C09.a 2 senders x1, 1 subscriber, unbuffered", "2 senders x 1 trace, 1 subscriber buffer 0 taking 0..2", tiers=T),
    sc("VerifC09_S2x2_U1_B1", "C09.a 2 senders x2, 1 subscriber", "2 senders x 2 traces, buffer 1, take 0..3", tiers=("thorough",), K=140),
    sc("VerifC09_S2x1_U2_B1", "C09.a 2 senders x1, 2 subscribers", "2 senders x 1 trace, 2 joining/leaving subscribers", tiers=("thorough",), K=140),
    sc("VerifC09_S3x1_U1_B2", "C09.a 3 senders x1, 1 subscriber", "3 senders x 1 trace, buffer 2, take 0..3", tiers=("thorough",), K=140),
    sc("VerifC09_SendAfterCancel", "C09.b cancel, then a registered sender sends and reports Done", "context cancelled first; 1 registered sender x 1 trace, reference subscriber (buffer 4)", K=60,
       eo=["every Send returns (no deadlock while the remaining subscribers keep consuming)", "traces sent by a registered sender before it reports Done are delivered even after cancellation"]),
    sc("VerifC09_CancelDrain", "C09.b cancel at any point while a registered sender sends 2 and reports Done", "1 registered sender x 2 traces, cancel from another goroutine at every point, reference subscriber (buffer 8)", K=90,
       eo=["every Send returns (no deadlock while the remaining subscribers keep consuming)", "traces sent by a registered sender before it reports Done are delivered even after cancellation",
           "after cancellation and the last sender's Done the subscriber channel is closed", "after cancellation and the last sender's Done the tracer is done"]),
]
