"""regenerates MANIFEST.json from checks/*.py (CLAIM dicts) + NOT_APPLICABLE list below"""
import importlib, json, os, sys
HERE = os.path.dirname(os.path.abspath(__file__))
VERIF = os.path.dirname(HERE)
sys.path.insert(0, os.path.join(VERIF, "checks"))
ALL = ["C%02d" % i for i in range(1, 21)]
NA_DEFAULT = "no check registered yet for this property (see DESIGN.md section 4 for the plan)"
NA = json.load(open(os.path.join(VERIF, "checks", "not_applicable.json")))
checks = []
na = []
for p in ALL:
    f = os.path.join(VERIF, "checks", p.lower() + ".py")
    if os.path.exists(f) and p not in NA:
        mod = importlib.import_module(p.lower())
        c = getattr(mod, "CLAIM", {})
        checks.append(dict(
            property_id=p,
            quick_cmd="./check %s --tier quick" % p,
            thorough_cmd="./check %s --tier thorough" % p,
            evidence_file="/verif/evidence/%s.json" % p,
            replay_cmd_template="./check %s --replay {path}" % p,
            engine="gobmc",
            level_claimed=dict(category="model_checking", text=c.get("text", mod.EXPLANATION), design_ref=c.get("design_ref", "DESIGN.md section 4, " + p)),
            level_note=c.get("note", "bounded: holds for every input/schedule inside the bounds listed per scenario in the evidence file; trusted: go/ssa, the gobmc interpreter and runtime model, z3"),
            technique=c.get("technique", "bounded symbolic execution of the real Go code (go/ssa -> SMT, z3), scheduler choices as SMT variables"),
        ))
    else:
        na.append(dict(property_id=p, reason=NA.get(p, NA_DEFAULT)))
man = dict(
    version=1,
    setup_cmd="cd /verif/gobmc/ssaexport && GOFLAGS=-mod=mod GOPROXY=off GOSUMDB=off GOTOOLCHAIN=local GOWORK=off go build -o ssaexport .",
    hooks=dict(guard="verif", enable="no source hooks: harness files are copied into a scratch copy of /repo's working tree (never into /repo)",
               baseline_off_cmd="cd /repo && go test -vet=off -count=1 ./... && cd schema && go test -vet=off -count=1 ./...",
               source_commits=[], add_only=True),
    engines=[dict(name="gobmc", path="/verif/gobmc", serves_properties=[c["property_id"] for c in checks],
                  kind_free_text="SSA-level symbolic interpreter for Go with guarded state merging + step-indexed scheduling BMC, decided by z3")],
    checks=checks,
    notes=("Every check rebuilds its encoding from /repo's current working tree (rsync to a temp dir + go/ssa export + symbolic interpretation). "
           "Genuine defects found are listed in /verif/known_findings.json: 'fixed' entries name the unguarded 'fix:' commits in /repo, 'findings' are printed as KNOWN-FINDING lines. "
           "No guarded source hooks exist: harness files enter builds only through the scratch copy. "
           "Seeded changes used to test the checks are under /verif/seeded/ (DESIGN.md section 10.3). "
           "INCONCLUSIVE lines (time budget, unsupported construct) never count as 'holds': the evidence file lists them per scenario."),
    not_applicable=na,
)
json.dump(man, open(os.path.join(VERIF, "MANIFEST.json"), "w"), indent=1)
print("checks:", [c["property_id"] for c in checks], "na:", [n["property_id"] for n in na])
