#!/bin/bash
# applies each seeded change to /repo's working tree, runs the property's quick check, records the verdict, undoes the change
cd /verif
for x in "$@"; do
  P=${x%%-*}; K=${x##*-}
  PATCH=/tmp/mut/$P/$K/patch.diff; [ -f /tmp/mut/$P/$K/patch.rebased.diff ] && PATCH=/tmp/mut/$P/$K/patch.rebased.diff
  [ -f /verif/seeded/$P-$K/patch.diff ] && PATCH=/verif/seeded/$P-$K/patch.diff
  git -C /repo checkout -- . ; 
  if ! git -C /repo apply $PATCH 2>/dev/null; then echo "RESULT $x patch-does-not-apply"; continue; fi
  OUT=$(timeout 1500 ./check $P --tier quick 2>&1); RC=$?
  NV=$(echo "$OUT" | grep -c "^VIOLATION"); 
  echo "RESULT $x rc=$RC violations=$NV $(echo "$OUT" | tail -1)"
  echo "$OUT" | grep "violated=[1-9]" | head -4
  git -C /repo checkout -- .
done
