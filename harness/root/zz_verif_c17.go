package bpmn

import (
	"context"

	"github.com/olive-io/bpmn/schema"
	"github.com/olive-io/bpmn/v2/pkg/data"
	"github.com/olive-io/bpmn/v2/pkg/event"
	"github.com/olive-io/bpmn/v2/pkg/expression"
	"github.com/olive-io/bpmn/v2/pkg/id"
	"github.com/olive-io/bpmn/v2/pkg/tracing"
)

// C17 (reduced claim): lock / atomic discipline of engine state that several goroutines share.  The code is executed by
// the interpreter, which checks at every access of a registered cell that its guarding lock is held, resp. that a cell
// written with sync/atomic is never read or written plainly.

// the inclusive join's picture of live flows: written by the tracker goroutine, read by the gateway goroutine
func VerifC17_TrackerLock() {
	b := verifNewB("p")
	b.inclusive("join", nil, nil, "")
	b.task("x", nil, nil)
	defs := b.defs()
	p := &defs.ProcessField[0]
	tracker := &flowTracker{flows: make(map[id.Id]schema.Id), element: &p.InclusiveGatewayField[0], activityCh: make(chan struct{}, 1)}
	verifGuardedBy(tracker.flows, &tracker.lock, "flowTracker.flows")
	verifReach("registered")
	fid := id.Id(&verifId{n: 1})
	src := schema.FlowNodeInterface(&p.TaskField[0])
	// what flowTracker.run does per trace: handleTrace takes the lock, run releases it once the traces are drained
	var tr tracing.ITrace = FlowTrace{Source: src, Flows: []Snapshot{{flowId: fid, sequenceFlow: &SequenceFlow{SequenceFlow: &schema.SequenceFlow{}, process: p}}}}
	locked, _, _ := tracker.handleTrace(false, tr, false, true)
	if locked {
		tracker.lock.Unlock()
	}
	_ = tracker.activeFlowsInCohort(fid)
	locked, _, _ = tracker.handleTrace(false, TerminationTrace{FlowId: fid, Source: src}, false, true)
	if locked {
		tracker.lock.Unlock()
	}
	_ = tracker.activeFlowsInCohort(fid)
	verifReach("done")
}

// the activity harness' `active` flag (atomic), the process' and the harness' event consumer lists (locks): a token runs
// through a task while events are delivered
func VerifC17_EventDelivery() {
	b := verifNewB("p")
	b.flow("in", "s", "a", false)
	b.task("a", []string{"in"}, []string{"n"})
	b.flow("n", "a", "nx", false)
	b.task("nx", []string{"n"}, nil)
	inst := verifNewInst(b)
	if inst.proc == nil {
		return
	}
	var nx int64
	inst.sinkAt("nx", &nx)
	h := inst.nodeAt("a").(*harness)
	verifAtomicOnly(&h.active, "harness.active")
	verifGuardedBy(&h.eventConsumers, &h.eventConsumersLock, "harness.eventConsumers")
	verifGuardedBy(&inst.proc.eventConsumers, &inst.proc.eventConsumersLock, "Process.eventConsumers")
	verifReach("registered")
	// the task itself is a stand-in that answers at once: the harness around it (the code under examination) is real
	h.activity = &verifInstantActivity{elem: inst.elem("a"), outs: allSequenceFlows(&h.outgoing)}
	inst.proc.ConsumeEvent(event.NewSignalEvent("noise"))
	inst.tokenAt("a", "in")
	verifQuiesce()
	inst.proc.ConsumeEvent(event.NewSignalEvent("noise"))
	_ = inst.proc.RegisterEventConsumer(event.VoidConsumer{})
	verifReach("done")
}

// C17.d: condition evaluation by two tokens at the same time.  Real flow.executeSequenceFlow and the real
// expression.GetEngine / RegisterEngine; the engine registered for the instance's expression language is a stand-in that
// (like the real expr engine, which writes its env and locator maps on every call) is NOT goroutine-safe: every method
// marks the instance busy, yields, and checks that nobody else entered.  Two goroutines using one engine instance at the
// same time is exactly what the race detector reports for the real engine's maps.
type verifBusyEngine struct{ busy int64 }

func (e *verifBusyEngine) enter() {
	e.busy++
	verifYield()
	verifAssert(e.busy == 1, "an expression engine instance is never used by two goroutines at the same time")
}
func (e *verifBusyEngine) CompileExpression(source string) (expression.ICompiledExpression, error) {
	e.enter()
	e.busy--
	return source, nil
}
func (e *verifBusyEngine) EvaluateExpression(c expression.ICompiledExpression, props interface{}) (expression.IResult, error) {
	e.enter()
	m, _ := props.(map[string]any)
	r := m[c.(string)]
	e.busy--
	return r, nil
}
func (e *verifBusyEngine) SetItemAwareLocator(string, data.IItemAwareLocator) {
	e.enter()
	e.busy--
}

func VerifC17_ConcurrentConditions() {
	v1 := verifNondetBool("v1")
	v2 := verifNondetBool("v2")
	b := verifNewB("p")
	b.task("a", []string{"in"}, []string{"f1", "f2"})
	b.flow("in", "s", "a", false)
	b.flow("f1", "a", "t1", true)
	b.flow("f2", "a", "t2", true)
	b.task("t1", []string{"f1"}, nil)
	b.task("t2", []string{"f2"}, nil)
	b.cond("f1", v1)
	b.cond("f2", v2)
	inst := verifNewInst(b)
	if inst.proc == nil {
		return
	}
	if verifSymbolic() {
		expression.RegisterEngine(*inst.defs.ExpressionLanguage(), func(ctx context.Context) expression.IEngine { return &verifBusyEngine{} })
	}
	p := inst.proc
	pe := &inst.defs.ProcessField[0]
	sfs := [2]*SequenceFlow{NewSequenceFlow(&pe.SequenceFlowField[1], pe), NewSequenceFlow(&pe.SequenceFlowField[2], pe)}
	want := [2]bool{v1, v2}
	var done int64
	verifReach("registered")
	for i := 0; i < 2; i++ {
		fl := newFlow(inst.defs, inst.nodeAt("a"), p.subTracer, p.flowNodeMapping, &p.flowWaitGroup, p.idGenerator, nil, p.locator)
		go func() {
			r, err := fl.executeSequenceFlow(inst.ctx, sfs[i], false)
			verifAssert(err == nil && r == want[i], "a condition evaluated concurrently with another token's condition yields its own result")
			verifAdd(&done, 1)
		}()
	}
	verifQuiesce()
	verifReach("done")
	verifAssert(verifGet(&done) == 2, "both evaluations return")
}
