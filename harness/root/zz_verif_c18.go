package bpmn

import (
	"context"

	"github.com/olive-io/bpmn/schema"
	"github.com/olive-io/bpmn/v2/pkg/tracing"
)

// C18: process set protocol.  Real NewProcessSet / StartAll / tracerProcess / WaitUntilComplete / run; a member process
// is stood in for by a goroutine that emits its traces, ending in CeaseFlowTrace, at its own pace on the member's
// tracer (Process.StartAll is replaced by verifProcStartAll in the symbolic run; natively the real processes run).
func verifProcStartAll(p *Process, ctx context.Context) error {
	go func() {
		verifYield()
		p.tracer.Send(VisitTrace{})
		verifYield()
		p.tracer.Send(CeaseFlowTrace{Process: p.element})
	}()
	return nil
}

func verifC18Defs(n int) (*schema.Definitions, []*schema.Process) {
	d := schema.DefaultDefinitions()
	for i := 0; i < n; i++ {
		b := verifNewB(verifTaskNames[i])
		b.start("s", "f")
		b.flow("f", "s", "e", false)
		b.end("e", "f")
		d.ProcessField = append(d.ProcessField, b.p)
	}
	ps := make([]*schema.Process, 0, n)
	for i := range d.ProcessField {
		ps = append(ps, &d.ProcessField[i])
	}
	return &d, ps
}

func verifC18(members, waits int, concurrent bool) {
	ctx := context.Background()
	defs, procs := verifC18Defs(members)
	var ceaseSet, ceaseFlow int64
	tracer := verifMkTracer(ctx, func(tr tracing.ITrace) {
		switch tracing.Unwrap(tr).(type) {
		case CeaseProcessSetTrace:
			verifAdd(&ceaseSet, 1)
		case CeaseFlowTrace:
			verifAdd(&ceaseFlow, 1)
		}
	})
	ps, err := NewProcessSet(procs, nil, defs, WithContext(ctx), WithTracer(tracer), WithIdGenerator(&verifIdGen{}))
	verifAssert(err == nil, "NewProcessSet succeeds")
	if err != nil {
		return
	}
	err = ps.StartAll(ctx)
	verifAssert(err == nil, "ProcessSet.StartAll succeeds")
	var done int64
	wait := func() {
		ok := ps.WaitUntilComplete(ctx)
		verifAssert(ok, "WaitUntilComplete with a live context returns true")
		verifAssert(verifGet(&ceaseFlow) == int64(members), "WaitUntilComplete returns true only when every started process has completed")
		verifAdd(&done, 1)
	}
	if concurrent {
		for i := 0; i < waits; i++ {
			go wait()
		}
	} else {
		go func() {
			for i := 0; i < waits; i++ {
				wait()
			}
		}()
	}
	verifQuiesce()
	verifReach("quiescent")
	verifAssert(verifGet(&ceaseFlow) == int64(members), "every member process completes")
	verifAssert(verifGet(&done) == int64(waits), "every WaitUntilComplete call returns once all started processes have completed, however early they finish")
	verifAssert(verifGet(&ceaseSet) == 1, "exactly one cease-process-set trace is emitted")
}

func VerifC18_P1_W1()     { verifC18(1, 1, false) }
func VerifC18_P1_W2seq()  { verifC18(1, 2, false) }
func VerifC18_P1_W2conc() { verifC18(1, 2, true) }
func VerifC18_P2_W1()     { verifC18(2, 1, false) }

// ---- message flows: a throw event of a running member process instantiates the waiting target process at the referenced
// start event, exactly once per throw, and the set completes only when the instantiated processes have completed too.
// Real ProcessSet.run (throwMessage arm, resolveWaitingProcessAndEvent, NewProcess for the target) and tracerProcess;
// Process.StartWith of the instantiated process is replaced by a stand-in that counts the instantiation and emits the
// instance's traces ending in CeaseFlowTrace at its own pace.
var verifInstantiated int64

func verifProcStartWith(p *Process, ctx context.Context, element schema.FlowNodeInterface) error {
	verifAdd(&verifInstantiated, 1)
	if verifGet(&verifInstantiated) >= 2 {
		// a later instance completes at once ...
		p.tracer.Send(VisitTrace{})
		p.tracer.Send(CeaseFlowTrace{Process: p.element})
		return nil
	}
	go func() {
		// ... the first one takes its time
		verifYield()
		p.tracer.Send(VisitTrace{})
		verifYield()
		p.tracer.Send(CeaseFlowTrace{Process: p.element})
	}()
	return nil
}

var verifThrows int

// member process stand-in for the message-flow scenarios: throws verifThrows times, then completes
func verifProcStartAllThrowing(p *Process, ctx context.Context) error {
	go func() {
		te := schema.DefaultThrowEvent()
		tid := "throw1"
		te.SetId(&tid)
		verifYield()
		for i := 0; i < verifThrows; i++ {
			p.tracer.Send(FlowTrace{Source: &te})
		}
		p.tracer.Send(CeaseFlowTrace{Process: p.element})
	}()
	return nil
}

func verifC18Message(throws int) {
	verifThrows = throws
	ctx := context.Background()
	defs, procs := verifC18Defs(1)
	// a waiting process with a start event referenced by a message flow from the member's throw event
	wb := verifNewB("waiting")
	wb.start("wstart", "wf")
	wb.flow("wf", "wstart", "wend", false)
	wb.end("wend", "wf")
	defs.ProcessField = append(defs.ProcessField, wb.p)
	waiting := &defs.ProcessField[1]
	procs = []*schema.Process{&defs.ProcessField[0]}
	col := schema.DefaultCollaboration()
	mf := schema.DefaultMessageFlow()
	mf.SourceRefField = "throw1"
	mf.TargetRefField = "wstart"
	col.MessageFlowField = append(col.MessageFlowField, mf)
	defs.CollaborationField = append(defs.CollaborationField, col)
	var ceaseSet, ceaseFlow int64
	tracer := verifMkTracer(ctx, func(tr tracing.ITrace) {
		switch tracing.Unwrap(tr).(type) {
		case CeaseProcessSetTrace:
			verifAdd(&ceaseSet, 1)
		case CeaseFlowTrace:
			verifAdd(&ceaseFlow, 1)
		}
	})
	ps, err := NewProcessSet(procs, []*schema.Process{waiting}, defs, WithContext(ctx), WithTracer(tracer), WithIdGenerator(&verifIdGen{}))
	verifAssert(err == nil, "NewProcessSet succeeds")
	if err != nil {
		return
	}
	err = ps.StartAll(ctx)
	verifAssert(err == nil, "ProcessSet.StartAll succeeds")
	verifQuiesce() // every throw has been handled, every process has completed
	verifAssert(verifGet(&verifInstantiated) == int64(throws), "a message flow instantiates the waiting target process exactly once per throw")
	var done int64
	go func() {
		ok := ps.WaitUntilComplete(ctx)
		verifAssert(ok, "WaitUntilComplete with a live context returns true")
		verifAssert(verifGet(&ceaseFlow) == int64(1+throws), "WaitUntilComplete returns true only when every started process has completed")
		verifAdd(&done, 1)
	}()
	verifQuiesce()
	verifReach("quiescent")
	verifAssert(verifGet(&done) == 1, "every WaitUntilComplete call returns once all started processes have completed, however early they finish")
	verifAssert(verifGet(&ceaseSet) == 1, "exactly one cease-process-set trace is emitted")
}

func VerifC18_Message_1() { verifC18Message(1) }
func VerifC18_Message_2() { verifC18Message(2) }
