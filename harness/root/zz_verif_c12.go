package bpmn

import (
	"context"

	"github.com/olive-io/bpmn/schema"
)

// C12: embedded sub-process - the parent's token continues past the sub-process exactly once, after every inner token is consumed.
// Real newSubProcess constructor (inner start event -> end event), subProcess.NextAction / run / startAll / ceaseFlowMonitor, the
// real inner nodes and flows, the real harness around the sub-process and the parent's flow; a sink follows the sub-process.
func (b *verifB) subProcess(nid string, in, out []string, withTask bool) {
	sp := schema.DefaultSubProcess()
	b.node(&sp.FlowNode, nid, in, out)
	st := schema.DefaultStartEvent()
	sid, eid, fid := nid+"_s", nid+"_e", nid+"_f"
	st.SetId(&sid)
	st.SetOutgoings(verifQ([]string{fid}))
	sp.StartEventField = append(sp.StartEventField, st)
	en := schema.DefaultEndEvent()
	en.SetId(&eid)
	en.SetIncomings(verifQ([]string{fid}))
	sp.EndEventField = append(sp.EndEventField, en)
	sf := schema.DefaultSequenceFlow()
	sf.SetId(&fid)
	sf.SetSourceRef(sid)
	sf.SetTargetRef(eid)
	sp.SequenceFlowField = append(sp.SequenceFlowField, sf)
	b.p.SubProcessField = append(b.p.SubProcessField, sp)
}

func VerifC12_Basic() {
	b := verifNewB("p")
	b.flow("in", "s", "sub", false)
	b.subProcess("sub", []string{"in"}, []string{"out"}, false)
	b.flow("out", "sub", "after", false)
	b.task("after", []string{"out"}, nil)
	inst := verifNewInst(b)
	if inst.proc == nil {
		return
	}
	var after int64
	inst.sinkAt("after", &after)
	inst.tokenAt("sub", "in")
	verifQuiesce()
	verifReach("quiescent")
	verifAssert(verifGet(&after) <= 1, "the parent's token continues past the sub-process at most once")
	verifAssert(verifGet(&after) >= 1, "the parent's token continues past the sub-process once every inner token is consumed")
}

// C12 (construction): every kind of activity placed inside an embedded sub-process is built as the same kind of engine
// node as when it is placed inline in the process (so it is requested as it would be inline).
func VerifC12_InnerActivityKinds() {
	b := verifNewB("p")
	sp := schema.DefaultSubProcess()
	b.node(&sp.FlowNode, "sub", nil, nil)
	k := verifNondetInt("kind", 0, 8)
	inner, outer := "inner", "outer"
	switch k {
	case 0:
		e := schema.DefaultTask()
		e.SetId(&inner)
		sp.TaskField = append(sp.TaskField, e)
		e.SetId(&outer)
		b.p.TaskField = append(b.p.TaskField, e)
	case 1:
		e := schema.DefaultUserTask()
		e.SetId(&inner)
		sp.UserTaskField = append(sp.UserTaskField, e)
		e.SetId(&outer)
		b.p.UserTaskField = append(b.p.UserTaskField, e)
	case 2:
		e := schema.DefaultServiceTask()
		e.SetId(&inner)
		sp.ServiceTaskField = append(sp.ServiceTaskField, e)
		e.SetId(&outer)
		b.p.ServiceTaskField = append(b.p.ServiceTaskField, e)
	case 3:
		e := schema.DefaultScriptTask()
		e.SetId(&inner)
		sp.ScriptTaskField = append(sp.ScriptTaskField, e)
		e.SetId(&outer)
		b.p.ScriptTaskField = append(b.p.ScriptTaskField, e)
	case 4:
		e := schema.DefaultSendTask()
		e.SetId(&inner)
		sp.SendTaskField = append(sp.SendTaskField, e)
		e.SetId(&outer)
		b.p.SendTaskField = append(b.p.SendTaskField, e)
	case 5:
		e := schema.DefaultReceiveTask()
		e.SetId(&inner)
		sp.ReceiveTaskField = append(sp.ReceiveTaskField, e)
		e.SetId(&outer)
		b.p.ReceiveTaskField = append(b.p.ReceiveTaskField, e)
	case 6:
		e := schema.DefaultManualTask()
		e.SetId(&inner)
		sp.ManualTaskField = append(sp.ManualTaskField, e)
		e.SetId(&outer)
		b.p.ManualTaskField = append(b.p.ManualTaskField, e)
	case 7:
		e := schema.DefaultBusinessRuleTask()
		e.SetId(&inner)
		sp.BusinessRuleTaskField = append(sp.BusinessRuleTaskField, e)
		e.SetId(&outer)
		b.p.BusinessRuleTaskField = append(b.p.BusinessRuleTaskField, e)
	default:
		e := schema.DefaultCallActivity()
		e.SetId(&inner)
		sp.CallActivityField = append(sp.CallActivityField, e)
		e.SetId(&outer)
		b.p.CallActivityField = append(b.p.CallActivityField, e)
	}
	b.p.SubProcessField = append(b.p.SubProcessField, sp)
	inst := verifNewInst(b)
	if inst.proc == nil {
		return
	}
	verifReach("built")
	out, ok := inst.proc.flowNodeMapping.mapping["outer"].(*harness)
	verifAssert(ok, "an inline activity is an activity node")
	sub, ok2 := inst.proc.flowNodeMapping.mapping["sub"].(*harness)
	verifAssert(ok2, "the sub-process is an activity node")
	if !ok || !ok2 {
		return
	}
	spn, ok3 := sub.activity.(*subProcess)
	verifAssert(ok3, "the sub-process is a sub-process node")
	if !ok3 {
		return
	}
	in, ok4 := spn.flowNodeMapping.mapping["inner"].(*harness)
	verifAssert(ok4, "an activity inside a sub-process is an activity node")
	if !ok4 {
		return
	}
	verifAssert(in.activity.Type() == out.activity.Type(), "an activity inside a sub-process is the same kind of node (requested with the same activity type) as inline")
}

// C12 (relay): the parent's token is released by the sub-process node only when the inner instance has reported that no
// inner token remains (CeaseFlowTrace on the inner tracer) - not when an inner token reaches an end event - and then exactly
// once.  Real subProcess.NextAction / run (relay loop); the inner instance is stood in for by the harness, which emits the
// inner traces on the sub-process' inner tracer (subProcess.startAll is replaced by a no-op in this scenario).
func verifSubStartAll(sp *subProcess, ctx context.Context) error { return nil }

func VerifC12_RelayRelease() {
	b := verifNewB("p")
	b.flow("in", "s", "sub", false)
	b.subProcess("sub", []string{"in"}, []string{"out"}, false)
	b.flow("out", "sub", "after", false)
	b.task("after", []string{"out"}, nil)
	inst := verifNewInst(b)
	if inst.proc == nil {
		return
	}
	h := inst.nodeAt("sub").(*harness)
	spn := h.activity.(*subProcess)
	var released int64
	go func() {
		act := <-spn.NextAction(inst.ctx, &verifFlowRef{n: 1})
		if fa, ok := act.(flowAction); ok && len(fa.sequenceFlows) == 1 {
			verifAdd(&released, 1)
		}
	}()
	verifQuiesce() // the relay listens on the inner tracer
	innerEnd := &spn.element.EndEventField[0]
	spn.subTracer.Send(CompletionTrace{Node: innerEnd})
	spn.subTracer.Send(TerminationTrace{FlowId: &verifId{n: 7}, Source: innerEnd})
	verifQuiesce()
	verifAssert(verifGet(&released) == 0, "the parent's token does not continue while the inner instance has not reported that no token remains")
	spn.subTracer.Send(CeaseFlowTrace{Process: spn.element})
	verifQuiesce()
	verifReach("quiescent")
	verifAssert(verifGet(&released) == 1, "the parent's token continues exactly once when the inner instance has completed")
}

// C12 (completion report): real subProcess.NextAction / run / ceaseFlowMonitor; the inner instance `start -> end` is
// stood in for by what it emits on the inner tracer when it runs to completion at once (subProcess.startAll replaced):
// the inner start event's FlowTrace and the end event's CompletionTrace, with the inner wait group at zero.  The inner
// completion monitor must then report that no inner token remains where the node waits for the report, and the parent's
// token must continue - exactly once.
func verifSubStartAllDone(sp *subProcess, ctx context.Context) error {
	sp.subTracer.Send(FlowTrace{Source: &sp.element.StartEventField[0]})
	sp.subTracer.Send(CompletionTrace{Node: &sp.element.EndEventField[0]})
	return nil
}

func VerifC12_CompletionReport() {
	b := verifNewB("p")
	b.flow("in", "s", "sub", false)
	b.subProcess("sub", []string{"in"}, []string{"out"}, false)
	b.flow("out", "sub", "after", false)
	b.task("after", []string{"out"}, nil)
	inst := verifNewInst(b)
	if inst.proc == nil {
		return
	}
	var after int64
	inst.sinkAt("after", &after)
	inst.tokenAt("sub", "in")
	verifQuiesce()
	verifReach("quiescent")
	verifAssert(verifGet(&after) <= 1, "the parent's token continues past the sub-process at most once")
	verifAssert(verifGet(&after) >= 1, "the parent's token continues past the sub-process once every inner token is consumed")
}
