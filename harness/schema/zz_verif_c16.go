package schema

// C16: values survive storage through schema.Value (NewValue / ValueFrom / ValueFor) and nothing panics.
// The dynamic kind of the stored value, its payload and the declared item type are solver variables.

type verifEnum int

func (verifEnum) String() string { return "enum-member" }

type verifPair struct {
	A int    `json:"a"`
	B string `json:"b"`
}

var verifDeclared = []ItemType{"", ItemTypeInteger, ItemTypeString, ItemTypeBoolean, ItemTypeFloat, ItemTypeArray, ItemTypeObject, "custom"}
var verifStrPool = []string{"", "a", "true", "false", "12", "-7", " 1", "1.5", "1e3", "[1,2]", "{\"a\":1}", "ünï", "9223372036854775808"}

func verifStore(decl ItemType, v any) *Value {
	iv := &Value{ItemType: decl}
	iv.ValueFrom(v)
	return iv
}

// signed integers of every width, undeclared or declared integer: stored as integer, read back as int64(x)
func VerifC16_Signed() {
	k := verifNondetInt("kind", 0, 4)
	d := verifNondetInt("declared", 0, 1)
	x := verifNondetInt64("x")
	var v any
	var want int64
	switch k {
	case 0:
		v, want = int(x), x
	case 1:
		v, want = int8(x), int64(int8(x))
	case 2:
		v, want = int16(x), int64(int16(x))
	case 3:
		v, want = int32(x), int64(int32(x))
	default:
		v, want = x, x
	}
	verifReach("built")
	iv := verifStore(verifDeclared[d], v)
	verifAssert(iv.Type() == ItemTypeInteger, "signed integer is stored with item type integer")
	got, ok := iv.ValueFor().(int64)
	verifAssert(ok && got == want, "signed integer reads back unchanged")
}

// unsigned integers of every width within the signed 64-bit range
func VerifC16_Unsigned() {
	k := verifNondetInt("kind", 0, 4)
	d := verifNondetInt("declared", 0, 1)
	x := verifNondetInt64("x")
	verifAssume(x >= 0)
	var v any
	var want int64
	switch k {
	case 0:
		v, want = uint(x), x
	case 1:
		v, want = uint8(x), int64(uint8(x))
	case 2:
		v, want = uint16(x), int64(uint16(x))
	case 3:
		v, want = uint32(x), int64(uint32(x))
	default:
		v, want = uint64(x), x
	}
	verifReach("built")
	iv := verifStore(verifDeclared[d], v)
	verifAssert(iv.Type() == ItemTypeInteger, "unsigned integer is stored with item type integer")
	got, ok := iv.ValueFor().(int64)
	verifAssert(ok && got == want, "unsigned integer reads back unchanged")
}

// integer kinds whose type has a String method, plain and behind a pointer
func VerifC16_NamedInt() {
	x := verifNondetInt64("x")
	p := verifNondetBool("pointer")
	e := verifEnum(x)
	var v any = e
	if p {
		v = &e
	}
	verifReach("built")
	iv := NewValue(v)
	verifAssert(iv.Type() == ItemTypeInteger, "named integer is stored with item type integer")
	got, ok := iv.ValueFor().(int64)
	verifAssert(ok && got == x, "named integer reads back as its numeric value")
}

func VerifC16_BoolString() {
	d := verifNondetInt("declared", 0, 2)
	if verifNondetBool("isbool") {
		b := verifNondetBool("b")
		decl := ItemType("")
		if d == 1 {
			decl = ItemTypeBoolean
		}
		verifReach("built")
		iv := verifStore(decl, b)
		verifAssert(iv.Type() == ItemTypeBoolean, "bool is stored with item type boolean")
		got, ok := iv.ValueFor().(bool)
		verifAssert(ok && got == b, "bool reads back unchanged")
		return
	}
	i := verifNondetInt("s", 0, len(verifStrPool)-1)
	s := verifStrPool[i]
	decl := ItemType("")
	if d == 1 {
		decl = ItemTypeString
	}
	verifReach("built")
	var v any = s
	if d == 2 {
		v = &s
		decl = ""
	}
	iv := verifStore(decl, v)
	verifAssert(iv.Type() == ItemTypeString, "string is stored with item type string")
	got, ok := iv.ValueFor().(string)
	verifAssert(ok && got == s, "string reads back unchanged")
}

var verifFloats = []float64{0, 0.5, -2.25, 1e-10, 123456.789, 1e21, 3}

func VerifC16_Float() {
	i := verifNondetInt("f", 0, len(verifFloats)-1)
	d := verifNondetBool("declared")
	w32 := verifNondetBool("float32")
	f := verifFloats[i]
	var v any = f
	want := f
	if w32 {
		v = float32(f)
		want = float64(float32(f))
	}
	decl := ItemType("")
	if d {
		decl = ItemTypeFloat
	}
	verifReach("built")
	iv := verifStore(decl, v)
	verifAssert(iv.Type() == ItemTypeFloat, "float is stored with item type float")
	got, ok := iv.ValueFor().(float64)
	if d {
		verifAssert(ok && got == want, "declared float reads back unchanged")
	} else {
		verifAssert(ok && got == want, "float reads back unchanged")
	}
}

// nil, typed nil pointers and every composite kind against every declaration: nothing panics, and the
// undeclared store tags composites correctly
func VerifC16_AnyDeclaration() {
	k := verifNondetInt("kind", 0, 11)
	d := verifNondetInt("declared", 0, len(verifDeclared)-1)
	n := 7
	var v any
	var tag ItemType
	switch k {
	case 0:
		v = nil
	case 1:
		var p *int
		v = p
	case 2:
		v, tag = []any{1, "x"}, ItemTypeArray
	case 3:
		v, tag = [2]int{1, 2}, ItemTypeArray
	case 4:
		v, tag = map[string]any{"a": 1}, ItemTypeObject
	case 5:
		v, tag = verifPair{A: 1, B: "b"}, ItemTypeObject
	case 6:
		v, tag = &verifPair{A: 1, B: "b"}, ItemTypeObject
	case 7:
		v, tag = &n, ItemTypeInteger
	case 8:
		v, tag = true, ItemTypeBoolean
	case 9:
		v, tag = 1.5, ItemTypeFloat
	case 10:
		v, tag = "text", ItemTypeString
	default:
		v, tag = int64(3), ItemTypeInteger
	}
	verifReach("built")
	decl := verifDeclared[d]
	iv := verifStore(decl, v)
	if decl == "" && tag != "" {
		verifAssert(iv.Type() == tag, "undeclared store tags the value with the item type of its kind")
	}
	if decl != "" && decl != "custom" {
		verifAssert(iv.Type() == decl, "a declared item type is never changed by a store")
	}
	_ = iv.ValueFor()
	verifReach("read back")
}

// *Value is copied verbatim
func VerifC16_ValueCopy() {
	d := verifNondetInt("declared", 0, len(verifDeclared)-1)
	src := &Value{ItemType: ItemTypeInteger, ItemValue: "42"}
	verifReach("built")
	iv := verifStore(verifDeclared[d], src)
	verifAssert(iv.Type() == ItemTypeInteger && iv.ItemValue == "42", "a *Value is copied verbatim")
	got, ok := iv.ValueFor().(int64)
	verifAssert(ok && got == 42, "copied value reads back")
}

// containers: the stored value is a snapshot (mutating the source afterwards does not change it) and every read
// hands out its own container (mutating what one read returned does not change the stored value or a later read).
// Payloads are bools and strings (JSON keeps their Go type; numbers come back as float64 and are not used here).
func VerifC16_ContainerFresh() {
	k := verifNondetInt("kind", 0, 1)
	d := verifNondetInt("declared", 0, 1)
	x := verifNondetBool("x")
	verifReach("built")
	if k == 0 {
		src := map[string]any{"a": x}
		decl := ItemType("")
		if d == 1 {
			decl = ItemTypeObject
		}
		iv := verifStore(decl, src)
		src["a"] = "changed at the source"
		r1, ok1 := iv.ValueFor().(map[string]any)
		verifAssert(ok1 && len(r1) == 1 && r1["a"] == any(x), "object reads back with the content it was stored with")
		if ok1 {
			r1["a"] = "changed by a reader"
			r1["b"] = true
		}
		r2, ok2 := iv.ValueFor().(map[string]any)
		verifAssert(ok2 && len(r2) == 1 && r2["a"] == any(x), "a reader changing the container it was given does not change the stored object")
	} else {
		src := []any{x, "y"}
		decl := ItemType("")
		if d == 1 {
			decl = ItemTypeArray
		}
		iv := verifStore(decl, src)
		src[0] = "changed at the source"
		r1, ok1 := iv.ValueFor().([]any)
		verifAssert(ok1 && len(r1) == 2 && r1[0] == any(x) && r1[1] == any("y"), "array reads back with the content it was stored with")
		if ok1 && len(r1) == 2 {
			r1[0] = "changed by a reader"
		}
		r2, ok2 := iv.ValueFor().([]any)
		verifAssert(ok2 && len(r2) == 2 && r2[0] == any(x), "a reader changing the container it was given does not change the stored array")
	}
}
