package bpmn

import (
	"github.com/olive-io/bpmn/schema"
	"github.com/olive-io/bpmn/v2/pkg/id"
	"github.com/olive-io/bpmn/v2/pkg/tracing"
)

// C05.a: inclusive gateway fork decision - a token on every outgoing flow whose condition is true, the default flow alone
// if none is, an error trace if there is neither.  Real newInclusiveGateway / run / trySync / flowTracker / distributeFlows
// and the real flow loop (probeAction and flowAction arms); conditions are solver variables, sinks stand for the branches.
func verifC05(n, defPos int) {
	b := verifNewB("p")
	outs := make([]string, 0, 5)
	for i := 0; i < n; i++ {
		if i == defPos {
			outs = append(outs, "fd")
		}
		outs = append(outs, verifFlowNames[i])
	}
	if defPos >= n {
		outs = append(outs, "fd")
	}
	def := ""
	if defPos >= 0 {
		def = "fd"
	}
	// the token reaches the gateway through a real sequence flow from a pass-through node, so that the gateway's flow
	// tracker observes its arrival (FlowTrace into the gateway) as it would in a running instance
	b.catchSignal("pre", "go", []string{"in0"}, []string{"in"})
	b.flow("in0", "s", "pre", false)
	b.flow("in", "pre", "gw", false)
	b.inclusive("gw", []string{"in"}, outs, def)
	var c [4]bool
	for i := 0; i < n; i++ {
		b.flow(verifFlowNames[i], "gw", verifTaskNames[i], true)
		b.task(verifTaskNames[i], []string{verifFlowNames[i]}, nil)
		c[i] = verifNondetBool("c")
		b.cond(verifFlowNames[i], c[i])
	}
	if defPos >= 0 {
		b.flow("fd", "gw", "td", false)
		b.task("td", []string{"fd"}, nil)
	}
	inst := verifNewInst(b)
	if inst.proc == nil {
		return
	}
	var hits [4]int64
	var hitDef int64
	for i := 0; i < n; i++ {
		inst.sinkAt(verifTaskNames[i], &hits[i])
	}
	if defPos >= 0 {
		inst.sinkAt("td", &hitDef)
	}
	inst.tokenAt("gw", "in")
	verifQuiesce()
	verifReach("quiescent")
	anyTrue := false
	for i := 0; i < n; i++ {
		anyTrue = verifOr(anyTrue, c[i])
		if c[i] {
			verifAssert(verifGet(&hits[i]) == 1, "a token is placed on every outgoing flow whose condition is true")
		} else {
			verifAssert(verifGet(&hits[i]) == 0, "no token is placed on a flow whose condition is false")
		}
	}
	if defPos >= 0 {
		if anyTrue {
			verifAssert(verifGet(&hitDef) == 0, "the default flow is not taken when a condition is true")
		} else {
			verifAssert(verifGet(&hitDef) == 1, "the default flow alone is taken when no condition is true")
		}
	}
	if !anyTrue && defPos < 0 {
		verifAssert(inst.errs == 1, "no true condition and no default: an error trace is emitted")
	} else {
		verifAssert(inst.errs == 0, "no error trace when a flow is taken")
	}
}

func VerifC05_n1_nodef() { verifC05(1, -1) }
func VerifC05_n2_nodef() { verifC05(2, -1) }
func VerifC05_n2_def0()  { verifC05(2, 0) }
func VerifC05_n2_def1()  { verifC05(2, 1) }
func VerifC05_n2_def2()  { verifC05(2, 2) }
func VerifC05_n3_def1()  { verifC05(3, 1) }
func VerifC05_n3_nodef() { verifC05(3, -1) }

// stand-ins used by the fork-decision scenarios: the gateway's picture of live tokens (flowTracker goroutine) is replaced
// by "the asking flow is the only live flow of its cohort", which is the situation of a single token reaching a forking gateway
func verifNewFlowTracker(tracer tracing.ITracer, element *schema.InclusiveGateway) *flowTracker {
	return &flowTracker{shutdownCh: make(chan bool, 1), flows: make(map[id.Id]schema.Id), activityCh: make(chan struct{}, 1), element: element}
}

func verifActiveFlowsInCohort(tracker *flowTracker, flowId id.Id) []id.Id { return []id.Id{flowId} }

// ---------------------------------------------------------------------------------------------
// C05.b: the join's picture of live tokens.  flowTracker.handleTrace / activeFlowsInCohort are driven directly with a
// history of traces chosen by the solver (a flow created towards the join by an ordinary node, a flow created elsewhere,
// a flow re-tagged by an inclusive fork, a flow's termination) and compared after every step with a reference picture.
var verifFlowIds = []*verifId{{n: 1}, {n: 2}, {n: 3}}

func verifC05Tracker(L int) {
	b := verifNewB("p")
	b.task("x", nil, []string{"toJoin", "toOther"})
	b.inclusive("fork", nil, []string{"toJoin2"}, "")
	b.inclusive("join", []string{"toJoin", "toJoin2"}, nil, "")
	b.task("other", []string{"toOther"}, nil)
	b.flow("toJoin", "x", "join", false)
	b.flow("toOther", "x", "other", false)
	b.flow("toJoin2", "fork", "join", false)
	defs := b.defs()
	p := &defs.ProcessField[0]
	find := func(fid string) *SequenceFlow {
		for i := range p.SequenceFlowField {
			if idp, _ := p.SequenceFlowField[i].Id(); *idp == fid {
				sf := MakeSequenceFlow(&p.SequenceFlowField[i], p)
				return &sf
			}
		}
		return nil
	}
	toJoin, toOther, toJoin2 := find("toJoin"), find("toOther"), find("toJoin2")
	tracker := &flowTracker{flows: make(map[id.Id]schema.Id), element: &p.InclusiveGatewayField[1], activityCh: make(chan struct{}, 1)}
	srcX := schema.FlowNodeInterface(&p.TaskField[0])
	srcFork := schema.FlowNodeInterface(&p.InclusiveGatewayField[0])
	reached := false
	refReached := false
	var refTag [3]string // "" = not live
	for step := 0; step < L; step++ {
		verifMerge()
		f := verifChoice("flow", 0, 2)
		fid := id.Id(verifFlowIds[f])
		var tr tracing.ITrace
		switch verifChoice("kind", 0, 3) {
		case 0: // created by x towards the join
			tr = FlowTrace{Source: srcX, Flows: []Snapshot{{flowId: fid, sequenceFlow: toJoin}}}
			refReached = true
			if refTag[f] == "" {
				refTag[f] = "x"
			}
		case 1: // created by x towards another node
			tr = FlowTrace{Source: srcX, Flows: []Snapshot{{flowId: fid, sequenceFlow: toOther}}}
			if refTag[f] == "" {
				refTag[f] = "x"
			}
		case 2: // (re-)tagged by the inclusive fork
			tr = FlowTrace{Source: srcFork, Flows: []Snapshot{{flowId: fid, sequenceFlow: toJoin2}}}
			refReached = true
			refTag[f] = "fork"
		default:
			tr = TerminationTrace{FlowId: fid, Source: srcX}
			refTag[f] = ""
		}
		_, _, reached = tracker.handleTrace(true, tr, false, reached)
		verifAssert(reached == refReached, "the tracker knows that a flow has been created towards its node from the first such trace on, and never forgets it")
		for i := 0; i < 3; i++ {
			tag, live := tracker.flows[id.Id(verifFlowIds[i])]
			verifAssert(live == (refTag[i] != ""), "the tracker's set of live flows is exactly the flows created and not yet terminated")
			if live && refTag[i] != "" {
				verifAssert(string(tag) == refTag[i], "a live flow carries the tag of the node that created it (re-tagged only by an inclusive gateway)")
			}
		}
	}
	// cohort query for flow 0
	res := tracker.activeFlowsInCohort(id.Id(verifFlowIds[0]))
	want := 0
	for i := 0; i < 3; i++ {
		if refTag[0] != "" && refTag[i] == refTag[0] {
			want++
		}
	}
	verifAssert(len(res) == want, "the cohort of a flow is exactly the live flows with the same tag")
	verifReach("end")
}

func VerifC05b_Tracker_L2() { verifC05Tracker(2) }
func VerifC05b_Tracker_L3() { verifC05Tracker(3) }
func VerifC05b_Tracker_L4() { verifC05Tracker(4) }
