from common import STD
PROPERTY = "C02"
EXPLANATION = ("Real Process.ceaseFlowMonitor (with its closure and wait goroutine) and WaitUntilComplete (with its helper goroutine) against real "
               "flow goroutines (flow.Start ... real end event) of an instance built by NewProcess, under a symbolic scheduler. The start "
               "events' goroutines are stood in for by the harness, which registers the monitor as StartWith does and emits the start event's "
               "FlowTrace per token.")
ASSUMPTIONS = ["tracers replaced by the synchronous stub whose Subscribe is a scheduling point (contract established by C09)",
               "start events' own goroutines (Trigger/run) are replaced by the harness; the order Trigger -> monitor registration inside StartWith is therefore not explored",
               "tokens: real flows positioned at the end event (the behaviour of other nodes is the other properties' subject)",
               "bounds: 1..2 tokens, 1..2 waiters, one expired waiter followed by one live waiter, 1..2 start events",
               "no native cross-run of the witnesses: natively the harness observes traces through an asynchronous subscriber goroutine, so its count of consumed tokens can lag behind WaitUntilComplete (an artefact of the observer, seen once; the symbolic run observes synchronously)"]
EO = ["WaitUntilComplete returns true only when every token has been consumed",
      "the cease-flow trace is emitted exactly once after the last token is gone"]


def sc(entry, name, bounds, eo=EO, tiers=("quick", "thorough"), K=90):
    return dict(name=name, entry=entry, K=K, reach=["quiescent"], overrides=STD, tiers=tiers, expect_obligations=eo, bounds=bounds, native=False)


SCENARIOS = [
    sc("VerifC02_T1_W1", "C02 1 token, 1 waiter", "1 start event, 1 token, 1 waiter",
       EO + ["every waiter with a live context returns once the instance is complete"]),
    sc("VerifC02_ExpiredThenWait", "C02 expired waiter, then a live waiter", "1 token; a waiter whose context is cancelled at an arbitrary point, then a waiter with a live context",
       ["a waiter called after an earlier wait ended by context expiry still returns once the instance is complete"]),
    sc("VerifC02_TwoStarts", "C02 two start events", "2 start events, 1 token each, 1 waiter",
       ["StartAll returns for a process with two start events"]),
    sc("VerifC02_Real_S1_W1", "C02 real StartAll, 1 start event", "real StartAll/StartWith/Trigger/startEvent.run and flow from start to end; 1 start event, 1 waiter issued after StartAll returned",
       ["StartAll returns", "every waiter with a live context returns once the instance is complete",
        "the cease-flow trace is emitted exactly once after the last token is gone"], K=120),
    sc("VerifC02_T1_W2", "C02 1 token, 2 waiters", "1 token, 2 concurrent waiters", tiers=("thorough",), K=120),
    sc("VerifC02_T2_W1", "C02 2 tokens, 1 waiter", "2 tokens, 1 waiter", tiers=("thorough",), K=120),
]
