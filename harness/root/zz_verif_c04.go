package bpmn

// C04: exclusive gateway routes each token to exactly one deterministic branch.
// Real newExclusiveGateway / run / NextAction and the real flow loop (probeAction arm, flowAction arm);
// conditions are solver variables; sinks stand for the downstream nodes.

var verifFlowNames = []string{"f0", "f1", "f2", "f3"}
var verifTaskNames = []string{"t0", "t1", "t2", "t3"}

// n conditional flows; defPos < 0: no default flow, otherwise the default flow "fd" -> "td" is listed at
// position defPos among the gateway's outgoing flows.
func verifC04(n, defPos, tokens int) {
	b := verifNewB("p")
	outs := make([]string, 0, 5)
	for i := 0; i < n; i++ {
		if i == defPos {
			outs = append(outs, "fd")
		}
		outs = append(outs, verifFlowNames[i])
	}
	if defPos >= n {
		outs = append(outs, "fd")
	}
	def := ""
	if defPos >= 0 {
		def = "fd"
	}
	b.start("s", "in")
	b.flow("in", "s", "gw", false)
	b.exclusive("gw", []string{"in"}, outs, def)
	var c [4]bool
	for i := 0; i < n; i++ {
		b.flow(verifFlowNames[i], "gw", verifTaskNames[i], true)
		b.task(verifTaskNames[i], []string{verifFlowNames[i]}, nil)
		c[i] = verifNondetBool("c")
		b.cond(verifFlowNames[i], c[i])
	}
	if defPos >= 0 {
		b.flow("fd", "gw", "td", false)
		b.task("td", []string{"fd"}, nil)
	}
	inst := verifNewInst(b)
	if inst.proc == nil {
		return
	}
	var hits [4]int64
	var hitDef int64
	for i := 0; i < n; i++ {
		inst.sinkAt(verifTaskNames[i], &hits[i])
	}
	if defPos >= 0 {
		inst.sinkAt("td", &hitDef)
	}
	for k := 0; k < tokens; k++ {
		inst.tokenAt("gw", "in")
	}
	verifQuiesce()
	verifReach("quiescent")
	// oracle: first true condition in the gateway's order, else default, else error
	first := -1
	for i := n - 1; i >= 0; i-- {
		if c[i] {
			first = i
		}
	}
	for i := 0; i < n; i++ {
		if i == first {
			verifAssert(verifGet(&hits[i]) == int64(tokens), "every token takes the first flow whose condition is true")
		} else {
			verifAssert(verifGet(&hits[i]) == 0, "no token takes any other conditional flow")
		}
	}
	if defPos >= 0 {
		if first < 0 {
			verifAssert(verifGet(&hitDef) == int64(tokens), "the default flow is taken when no condition is true")
		} else {
			verifAssert(verifGet(&hitDef) == 0, "the default flow is not taken when a condition is true")
		}
	}
	if first < 0 && defPos < 0 {
		verifAssert(inst.errs == int64(tokens), "no effective flow and no default: one error trace per token")
	} else {
		verifAssert(inst.errs == 0, "no error trace when a flow is taken")
	}
	gw := inst.nodeAt("gw").(*exclusiveGateway)
	if first >= 0 || defPos >= 0 {
		verifAssert(len(gw.probing) == 0, "probing table is empty afterwards")
	}
}

func VerifC04_n1_nodef_t1() { verifC04(1, -1, 1) }
func VerifC04_n2_nodef_t1() { verifC04(2, -1, 1) }
func VerifC04_n2_def0_t1()  { verifC04(2, 0, 1) }
func VerifC04_n2_def1_t1()  { verifC04(2, 1, 1) }
func VerifC04_n2_def2_t1()  { verifC04(2, 2, 1) }
func VerifC04_n3_nodef_t1() { verifC04(3, -1, 1) }
func VerifC04_n3_def1_t1()  { verifC04(3, 1, 1) }
func VerifC04_n3_def3_t1()  { verifC04(3, 3, 1) }
func VerifC04_n2_def2_t2()  { verifC04(2, 2, 2) }
func VerifC04_n2_nodef_t2() { verifC04(2, -1, 2) }
func VerifC04_n1_def1_t2()  { verifC04(1, 1, 2) }
func VerifC04_n4_def2_t1()  { verifC04(4, 2, 1) }
