#!/bin/bash
# runs every registered quick check on /repo's current tree (must be clean) and reports exit codes and wall time
cd /verif
git -C /repo status --short | grep -q . && { echo "/repo is not clean"; exit 2; }
for P in $(python3 -c "import json;print(' '.join(c['property_id'] for c in json.load(open('MANIFEST.json'))['checks']))"); do
  S=$(date +%s); OUT=$(./check $P --tier quick 2>&1); RC=$?; E=$(date +%s)
  echo "$P rc=$RC $((E-S))s | $(echo "$OUT" | tail -1)"
  echo "$OUT" | grep "^INCONCLUSIVE\|^VIOLATION\|^UNCONFIRMED" | cut -c1-200
done
