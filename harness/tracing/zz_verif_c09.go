package tracing

import (
	"context"
	"sync"
)

// C09.a: the real tracer (NewTracer, run, SubscribeChannel, Unsubscribe, Send, RegisterSender).
// A reference subscriber R joins before anything is sent and never leaves: what it receives is the tracer's total order.
// Other subscribers join and leave at arbitrary times and must see a contiguous segment of that order.

type verifTrace struct{ sender, seq int }

func (t verifTrace) Unpack() any { return t }

func verifTag(tr ITrace) int {
	v := tr.(verifTrace)
	return v.sender*4 + v.seq
}

type verifSub struct {
	got      [8]int64 // tags in order of receipt (-1: none)
	n        int64
	joined   int64
	left     int64
	consumed int64
}

// a subscriber with the given buffer: subscribes, takes up to `take` traces one by one, unsubscribes
func (s *verifSub) run(t ITracer, buffer, take int, stop chan struct{}) {
	ch := t.SubscribeChannel(make(chan ITrace, buffer))
	verifAdd(&s.joined, 1)
taking:
	for i := 0; i < take; i++ {
		select {
		case tr, ok := <-ch:
			if !ok {
				break taking
			}
			s.got[verifGet(&s.n)] = int64(verifTag(tr))
			verifAdd(&s.n, 1)
		case <-stop: // every Send has returned: nothing more is coming
			break taking
		}
	}
	verifAdd(&s.consumed, 1)
	t.Unsubscribe(ch)
	verifAdd(&s.left, 1)
	// whatever is still buffered was delivered before the unsubscription took effect: it belongs to the segment
	for {
		select {
		case tr, ok := <-ch:
			if !ok {
				return
			}
			s.got[verifGet(&s.n)] = int64(verifTag(tr))
			verifAdd(&s.n, 1)
			continue
		default:
		}
		return
	}
}

var verifTakeFixed bool

func verifC09(senders, per, subs, buffer int, takeMax int) {
	ctx := context.Background()
	t := NewTracer(ctx)
	ref := t.SubscribeChannel(make(chan ITrace, 8))
	var sent int64
	var wg sync.WaitGroup
	stop := make(chan struct{})
	wg.Add(senders)
	for s := 0; s < senders; s++ {
		go func() {
			for q := 0; q < per; q++ {
				t.Send(verifTrace{sender: s, seq: q})
				verifAdd(&sent, 1)
			}
			wg.Done()
		}()
	}
	var xs [2]verifSub
	for u := 0; u < subs; u++ {
		take := takeMax
		if !verifTakeFixed {
			take = verifNondetInt("take", 0, takeMax)
		}
		go xs[u].run(t, buffer, take, stop)
	}
	if subs > 0 {
		go func() {
			wg.Wait()
			close(stop)
		}()
	}
	verifQuiesce()
	verifReach("quiescent")
	total := senders * per
	verifAssert(verifGet(&sent) == int64(total), "every Send returns (no deadlock while the remaining subscribers keep consuming)")
	verifAssert(len(ref) == total, "a subscriber that stays subscribed receives every trace exactly once")
	var order [8]int64
	var pos [16]int64
	for i := range pos {
		pos[i] = -1
	}
	n := len(ref)
	for i := 0; i < n; i++ {
		tag := verifTag(<-ref)
		order[i] = int64(tag)
		verifAssert(pos[tag] == -1, "no trace is delivered twice")
		pos[tag] = int64(i)
	}
	for s := 0; s < senders; s++ {
		for q := 1; q < per; q++ {
			verifAssert(pos[s*4+q-1] >= 0 && pos[s*4+q] > pos[s*4+q-1], "each sender's program order is preserved")
		}
	}
	for u := 0; u < subs; u++ {
		x := &xs[u]
		verifAssert(verifGet(&x.joined) == 1 && verifGet(&x.left) == 1, "SubscribeChannel and Unsubscribe return")
		k := verifGet(&x.n)
		for i := int64(0); i < k; i++ {
			p := pos[x.got[i]]
			verifAssert(p >= 0, "a subscriber only receives traces that were sent")
			if i > 0 {
				verifAssert(p == pos[x.got[i-1]]+1, "between subscribing and unsubscribing a subscriber sees a contiguous segment of the common order (nothing dropped, duplicated or reordered)")
			}
		}
	}
	_ = order
}

func VerifC09_S1x1_U1_B0() { verifC09(1, 1, 1, 0, 1) }
func VerifC09_S1x1_U1_B1() { verifC09(1, 1, 1, 1, 1) }
func VerifC09_S1x1_U1_B0_T0() {
	verifTakeFixed = true
	verifC09(1, 1, 1, 0, 0)
}
func VerifC09_S1x1_U1_B0_T1() {
	verifTakeFixed = true
	verifC09(1, 1, 1, 0, 1)
}
func VerifC09_S1x2_U0()    { verifC09(1, 2, 0, 0, 0) }
func VerifC09_S2x1_U0()    { verifC09(2, 1, 0, 0, 0) }
func VerifC09_S2x1_U1_B1() { verifC09(2, 1, 1, 1, 2) }
func VerifC09_S1x2_U1_B0() { verifC09(1, 2, 1, 0, 2) }
func VerifC09_S2x1_U1_B0() { verifC09(2, 1, 1, 0, 2) }
func VerifC09_S2x2_U1_B1() { verifC09(2, 2, 1, 1, 3) }
func VerifC09_S2x1_U2_B1() { verifC09(2, 1, 2, 1, 2) }
func VerifC09_S3x1_U1_B2() { verifC09(3, 1, 1, 2, 3) }

// cancellation: a registered sender keeps sending after the context was cancelled and only then reports Done;
// the tracer must deliver everything and then close the subscriber channel and Done()
func VerifC09_CancelDrain() {
	ctx, cancel := context.WithCancel(context.Background())
	t := NewTracer(ctx)
	ref := t.SubscribeChannel(make(chan ITrace, 8))
	h := t.RegisterSender()
	var sent int64
	go func() {
		t.Send(verifTrace{sender: 0, seq: 0})
		verifAdd(&sent, 1)
		t.Send(verifTrace{sender: 0, seq: 1})
		verifAdd(&sent, 1)
		h.Done()
	}()
	go func() { cancel() }()
	verifQuiesce()
	verifReach("quiescent")
	verifAssert(verifGet(&sent) == 2, "every Send returns (no deadlock while the remaining subscribers keep consuming)")
	verifAssert(len(ref) == 2, "traces sent by a registered sender before it reports Done are delivered even after cancellation")
	if len(ref) == 2 {
		a, b := verifTag(<-ref), verifTag(<-ref)
		verifAssert(a == 0 && b == 1, "each sender's program order is preserved")
	}
	_, open := <-ref
	verifAssert(!open, "after cancellation and the last sender's Done the subscriber channel is closed")
	isDone := false
	select {
	case <-t.Done():
		isDone = true
	default:
	}
	verifAssert(isDone, "after cancellation and the last sender's Done the tracer is done")
}

// a subscriber that joined before anything was sent, with the given buffer, read by a consumer that may lag arbitrarily:
// it must still see every trace exactly once and each sender's traces in program order
func verifC09Slow(senders, per, buffer int) {
	ctx := context.Background()
	t := NewTracer(ctx)
	ch := t.SubscribeChannel(make(chan ITrace, buffer))
	var got [8]int64
	var n int64
	total := senders * per
	for s := 0; s < senders; s++ {
		go func() {
			for q := 0; q < per; q++ {
				t.Send(verifTrace{sender: s, seq: q})
			}
		}()
	}
	go func() {
		for i := 0; i < total; i++ {
			verifYield() // the consumer is busy elsewhere for an arbitrary time before it takes the next trace
			tr := <-ch
			got[i] = int64(verifTag(tr))
			verifAdd(&n, 1)
		}
	}()
	verifQuiesce()
	verifReach("quiescent")
	verifAssert(verifGet(&n) == int64(total), "a subscriber that stays subscribed receives every trace exactly once")
	var pos [16]int64
	for i := range pos {
		pos[i] = -1
	}
	for i := 0; i < total; i++ {
		if int64(i) < verifGet(&n) {
			verifAssert(pos[got[i]] == -1, "no trace is delivered twice")
			pos[got[i]] = int64(i)
		}
	}
	for s := 0; s < senders; s++ {
		for q := 1; q < per; q++ {
			verifAssert(pos[s*4+q-1] >= 0 && pos[s*4+q] > pos[s*4+q-1], "each sender's program order is preserved")
		}
	}
}

func VerifC09_Slow_S1x2_B0() { verifC09Slow(1, 2, 0) }
func VerifC09_Slow_S1x2_B1() { verifC09Slow(1, 2, 1) }
func VerifC09_Slow_S1x3_B1() { verifC09Slow(1, 3, 1) }

// cancellation first, then a registered sender sends one more trace and reports Done: the trace must still be delivered
func VerifC09_SendAfterCancel() {
	ctx, cancel := context.WithCancel(context.Background())
	t := NewTracer(ctx)
	ref := t.SubscribeChannel(make(chan ITrace, 4))
	h := t.RegisterSender()
	cancel()
	var sent int64
	go func() {
		t.Send(verifTrace{sender: 0, seq: 0})
		verifAdd(&sent, 1)
		h.Done()
	}()
	verifQuiesce()
	verifReach("quiescent")
	verifAssert(verifGet(&sent) == 1, "every Send returns (no deadlock while the remaining subscribers keep consuming)")
	verifAssert(len(ref) == 1, "traces sent by a registered sender before it reports Done are delivered even after cancellation")
}
