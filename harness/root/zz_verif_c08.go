package bpmn

import (
	"context"

	"github.com/olive-io/bpmn/schema"
	"github.com/olive-io/bpmn/v2/pkg/data"
)

// C08.a: n Do calls on one task request (concurrent), optional cancellation of the task's context.
// Every Do returns; the consumer sees exactly one response.
func verifC08aDo(n int, withCancel bool) {
	ctx, cancel := context.WithCancel(context.Background())
	t := newTaskTraceBuilder().Context(ctx).Build()
	var returned, got int64
	for i := 0; i < n; i++ {
		go func() {
			t.Do()
			verifAdd(&returned, 1)
		}()
	}
	if withCancel {
		go func() {
			cancel()
		}()
	}
	go func() {
		<-t.out()
		verifAdd(&got, 1)
	}()
	verifQuiesce()
	verifReach("quiescent")
	verifAssert(verifGet(&returned) == int64(n), "every Do call returns")
	verifAssert(verifGet(&got) == 1, "the consumer receives exactly one response")
	_ = cancel
}

func VerifC08a_Do1()       { verifC08aDo(1, false) }
func VerifC08a_Do2()       { verifC08aDo(2, false) }
func VerifC08a_Do3()       { verifC08aDo(3, false) }
func VerifC08a_Do2Cancel() { verifC08aDo(2, true) }

// C08.c: error modes of a task answer, decided on the real flow loop.  The task node is a stand-in that answers every
// request with an error and the handler mode chosen by the scenario (retry count: solver's choice); the host element
// carries a task definition with its own retry default.  Retry: the same task is re-requested at most the given number
// of additional times; exit: the token stops; skip / no handler: an error trace, then the token continues.
type verifFailingNode struct {
	elem     schema.FlowNodeInterface
	outs     []*SequenceFlow
	requests *int64
	mode     ErrHandleMode
	retries  int32
	noHandle bool
}

func (n *verifFailingNode) NextAction(ctx context.Context, flow Flow) chan IAction {
	verifAdd(n.requests, 1)
	verifLog("request")
	ch := make(chan IAction, 1)
	rsp := &FlowActionResponse{err: verifErr{}}
	if !n.noHandle {
		h := make(chan ErrHandler, 1)
		verifPushHandler(h, ErrHandler{Mode: n.mode, Retries: n.retries})
		rsp.handler = h
	}
	verifPushAction(ch, flowAction{response: rsp, sequenceFlows: n.outs})
	return ch
}
func (n *verifFailingNode) Element() schema.FlowNodeInterface { return n.elem }

func verifPushHandler(ch chan ErrHandler, h ErrHandler) { ch <- h }

var verifRetries int32 = -2 // -2: solver's choice among 0..2

func verifC08c(mode ErrHandleMode, noHandle bool) {
	b := verifNewB("p")
	b.flow("in", "s", "a", false)
	b.task("a", []string{"in"}, []string{"n"})
	ext := schema.DefaultExtensionElements()
	ext.TaskDefinitionField = &schema.TaskDefinition{Retries: 2}
	b.p.TaskField[0].SetExtensionElements(&ext)
	b.flow("n", "a", "nx", false)
	b.task("nx", []string{"n"}, nil)
	inst := verifNewInst(b)
	if inst.proc == nil {
		return
	}
	var nx, requests int64
	inst.sinkAt("nx", &nx)
	real := inst.nodeAt("a").(*harness)
	r := verifRetries
	if r == -2 {
		r = int32(verifChoice("retries", 0, 2))
	}
	node := &verifFailingNode{elem: inst.elem("a"), outs: allSequenceFlows(&real.outgoing), requests: &requests, mode: mode, retries: r, noHandle: noHandle}
	inst.proc.flowNodeMapping.mapping["a"] = node
	ex, present := node.elem.ExtensionElements()
	verifAssert(present && ex != nil && ex.TaskDefinitionField != nil && ex.TaskDefinitionField.Retries == 2, "harness: the host element carries its task definition")
	inst.tokenAt("a", "in")
	verifQuiesce()
	verifReach("quiescent")
	verifAssert(inst.errs >= 1, "an answer carrying an error emits an error trace")
	switch {
	case noHandle || mode == SkipMode:
		verifAssert(verifGet(&requests) == 1 && verifGet(&nx) == 1, "no handler or skip: the token continues after the error trace")
	case mode == ExitMode:
		verifAssert(verifGet(&requests) == 1 && verifGet(&nx) == 0, "exit: the token stops")
	default:
		verifAssert(verifGet(&requests) == 1+int64(r), "retry: the task is re-requested exactly the given number of additional times while it keeps failing")
		verifAssert(verifGet(&requests) <= 1+int64(r), "retry: the task is re-requested at most the given number of additional times")
		verifAssert(verifGet(&nx) == 0, "retry exhausted: the token stops")
	}
}

func VerifC08c_Retry()     { verifC08c(RetryMode, false) }
func VerifC08c_Retry0()    { verifRetries = 0; verifC08c(RetryMode, false) }
func VerifC08c_Retry1()    { verifRetries = 1; verifC08c(RetryMode, false) }
func VerifC08c_Retry2()    { verifRetries = 2; verifC08c(RetryMode, false) }
func VerifC08c_Skip()      { verifC08c(SkipMode, false) }
func VerifC08c_Exit()      { verifC08c(ExitMode, false) }
func VerifC08c_NoHandler() { verifC08c(SkipMode, true) }

// C08.b: a successful answer stores exactly the declared result fields and data outputs.  ApplyTaskResult and
// ApplyTaskDataOutput with declared names (a solver-chosen subset of a pool) and supplied names (another subset):
// the stored keys are exactly declared AND supplied, each with the supplied value; nothing is stored without a declaration.
var verifNames = []string{"a", "b", "c"}
var verifDeclared = []schema.ItemType{schema.ItemTypeInteger, schema.ItemTypeString, ""}

func VerifC08b_DeclaredOnly() {
	var declared, supplied [3]bool
	task := schema.DefaultTask()
	ext := schema.DefaultExtensionElements()
	hasResults := verifNondetBool("hasResultsExtension")
	res := &schema.Result{}
	results := map[string]any{}
	outputs := map[string]any{}
	var vals [3]int64
	for i := 0; i < 3; i++ {
		declared[i] = verifNondetBool("declared")
		supplied[i] = verifNondetBool("supplied")
		vals[i] = verifNondetInt64("v")
		if declared[i] {
			// the declared type of a result field does not change what is stored: the supplied value decides
			res.Field = append(res.Field, &schema.Item{Name: verifNames[i], Type: verifDeclared[verifChoice("declaredType", 0, 2)]})
			ext.DataOutput = append(ext.DataOutput, schema.ExtensionAssociation{Name: verifNames[i]})
		}
		if supplied[i] {
			results[verifNames[i]] = vals[i]
			outputs[verifNames[i]] = vals[i]
		}
	}
	if hasResults {
		ext.ResultsField = res
	}
	task.SetExtensionElements(&ext)
	verifReach("built")
	got := ApplyTaskResult(&task, results)
	gotOut := ApplyTaskDataOutput(&task, outputs)
	for i := 0; i < 3; i++ {
		item, ok := got[verifNames[i]]
		verifAssert(ok == (hasResults && declared[i] && supplied[i]), "exactly the declared and supplied result fields are stored")
		if ok {
			v, isInt := item.Value().(int64)
			verifAssert(isInt && v == vals[i], "a stored result field carries the supplied value")
		}
		out, ok2 := gotOut[verifNames[i]]
		verifAssert(ok2 == (declared[i] && supplied[i]), "exactly the declared and supplied data outputs are stored")
		if ok2 {
			v, isInt := out.Value().(int64)
			verifAssert(isInt && v == vals[i], "a stored data output carries the supplied value")
		}
	}
	verifAssert(len(got) <= 3 && len(gotOut) <= 3, "nothing but the declared names is stored")
}

// C08.d: a successful answer's data outputs AND result fields both end up in the instance's data (flow loop's handling of
// the response), whatever combination the answer carries.  The task node is a stand-in that answers at once with the
// chosen combination; the flow loop and the data locator are the real code.
type verifAnsweringNode struct {
	elem schema.FlowNodeInterface
	outs []*SequenceFlow
	rsp  *FlowActionResponse
}

func (n *verifAnsweringNode) NextAction(ctx context.Context, flow Flow) chan IAction {
	ch := make(chan IAction, 1)
	verifPushAction(ch, flowAction{response: n.rsp, sequenceFlows: n.outs})
	return ch
}
func (n *verifAnsweringNode) Element() schema.FlowNodeInterface { return n.elem }

func VerifC08d_ResultsAndObjects() {
	b := verifNewB("p")
	b.flow("in", "s", "a", false)
	b.task("a", []string{"in"}, []string{"n"})
	b.flow("n", "a", "nx", false)
	b.task("nx", []string{"n"}, nil)
	inst := verifNewInst(b)
	if inst.proc == nil {
		return
	}
	var nx int64
	inst.sinkAt("nx", &nx)
	real := inst.nodeAt("a").(*harness)
	hasObj := verifNondetBool("answerCarriesDataObject")
	hasVar := verifNondetBool("answerCarriesResult")
	x := verifNondetInt64("x")
	rsp := &FlowActionResponse{dataObjects: map[string]data.IItem{}, variables: map[string]data.IItem{}}
	if hasObj {
		rsp.dataObjects["o"] = schema.NewValue(x)
	}
	if hasVar {
		rsp.variables["v"] = schema.NewValue(x)
	}
	inst.proc.flowNodeMapping.mapping["a"] = &verifAnsweringNode{elem: inst.elem("a"), outs: allSequenceFlows(&real.outgoing), rsp: rsp}
	inst.tokenAt("a", "in")
	verifQuiesce()
	verifReach("quiescent")
	verifAssert(verifGet(&nx) == 1, "the token continues after a successful answer")
	v, found := inst.proc.locator.GetVariable("v")
	verifAssert(found == hasVar, "a declared result field of the answer is stored as a variable (and nothing else is)")
	if found {
		got, ok := v.(int64)
		verifAssert(ok && got == x, "the stored result field carries the supplied value")
	}
	objFound := false
	// (the way a later task reads data objects: FetchTaskDataInput -> CloneItems)
	if item, ok := inst.proc.locator.CloneItems(data.LocatorObject)["o"]; ok && item != nil {
		objFound = true
		got, ok3 := item.Value().(int64)
		verifAssert(ok3 && got == x, "the stored data output carries the supplied value")
	}
	verifAssert(objFound == hasObj, "a declared data output of the answer is stored as a data object (and nothing else is)")
}
