package bpmn

// C16.c: variables of different instances are isolated from each other: two option sets built from the SAME
// WithVariables option value (as when one option list is reused for several instances) get separate stores.
func VerifC16c_Isolation() {
	opt := WithVariables(map[string]any{"x": int64(1)})
	o1 := NewOptions(opt)
	o2 := NewOptions(opt)
	verifReach("built")
	v1, ok1 := o1.locator.GetVariable("x")
	v2, ok2 := o2.locator.GetVariable("x")
	verifAssert(ok1 && ok2 && v1.(int64) == 1 && v2.(int64) == 1, "every instance sees the variables it was created with")
	n := verifNondetInt64("n")
	o1.locator.SetVariable("y", n)
	_, leaked := o2.locator.GetVariable("y")
	verifAssert(!leaked, "a variable written by one instance is not visible to another instance")
	o1.locator.SetVariable("x", int64(2))
	v2b, _ := o2.locator.GetVariable("x")
	verifAssert(v2b.(int64) == 1, "a variable overwritten by one instance keeps its value in another instance")
	got, ok := o1.locator.GetVariable("y")
	verifAssert(ok && got.(int64) == n, "a stored variable reads back unchanged")
}
