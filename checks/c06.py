from common import STD
PROPERTY = "C06"
EXPLANATION = ("Real eventBasedGateway.run with its terminate / actionTransformer closures (CAS, loser notification loop), the real flow loop for the "
               "arriving token and the two forked alternatives, real catchEvent nodes and Process.ConsumeEvent in an instance built by NewProcess; "
               "which events are delivered, from one or two goroutines, and the schedule are solver variables; the iteration order of the "
               "termination-channel map is a symbolic permutation.")
ASSUMPTIONS = ["tracer replaced by the synchronous stub (contract established by C09)",
               "2 alternatives (signal catch events); sinks stand for the continuation of each alternative",
               "bounds: one event; two events from one goroutine; two competing events from two goroutines",
               "quick tier: the catch events behind the gateway are replaced by stand-in nodes that answer NextAction with their outgoing flows when the harness fires them (gateway, flows, termination channels and action transformer are the real code)"]
EO = ["at most one alternative of an event-based gateway continues", "every event delivery returns",
      "the winning alternative continues exactly once (the instance goes on)"]


def sc(entry, name, bounds, tiers=("quick", "thorough"), K=110):
    return dict(name=name, entry=entry, K=K, reach=["quiescent"], overrides=STD, tiers=tiers, expect_obligations=EO, bounds=bounds, map_perm=True)


EOS = EO[:1] + EO[2:] + ["every losing alternative is withdrawn and the winner moves on (no token is left at the gateway's alternatives)"]
SCENARIOS = [
    dict(sc("VerifC06_Stub_One", "C06 one alternative fires (stand-in event nodes)", "one of the two alternatives fires (solver's choice); alternatives are stand-ins for catch events"), expect_obligations=EOS[:2]),
    dict(sc("VerifC06_Stub_Both", "C06 both alternatives fire concurrently (stand-in event nodes)", "both alternatives fire from two goroutines, all interleavings"), expect_obligations=EOS[:2]),
    dict(sc("VerifC06_Stub_Early", "C06 event already pending when the gateway is reached (stand-in event nodes)", "the first alternative fires as soon as it is asked; the second never fires; the start of every goroutine is a scheduling point"), expect_obligations=EOS[1:2], spawn_yield=True),
    sc("VerifC06_One", "C06 one event", "one event (sig1 or sig2), real catch events and Process.ConsumeEvent", tiers=("thorough",), K=140),
    sc("VerifC06_Concurrent", "C06 two competing events, concurrent", "sig1 and sig2 delivered concurrently from two goroutines, real catch events", tiers=("thorough",), K=140),
    sc("VerifC06_Seq2", "C06 two events, sequential", "two events (each sig1 or sig2) from one goroutine", tiers=("thorough",), K=140),
]
