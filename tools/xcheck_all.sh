#!/bin/bash
# every quick check once more with GOBMC_XCHECK=1: each obligation / reachability / quiescence query is printed as SMT-LIB2 and
# decided again by the system z3 4.8.12 binary and by cvc5 (30 s each); prints the agreement counts per property.
# Evidence goes to /tmp/ev_xcheck (the committed evidence is not touched).
cd "$(dirname "$0")/.."
N=${1:-6}
one() { P=$1; OUT=$(GOBMC_XCHECK=1 VERIF_EVIDENCE_DIR=/tmp/ev_xcheck ./check $P --tier quick --no-native 2>&1); RC=$?
  echo "$P rc=$RC | $(echo "$OUT" | grep '^cross-solver' | head -1) | $(echo "$OUT" | tail -1)"; echo "$OUT" | grep "disagreement" | cut -c1-300; }
export -f one
python3 -c "import json;print('\n'.join(c['property_id'] for c in json.load(open('MANIFEST.json'))['checks']))" | xargs -P $N -I{} bash -c 'one {}'
