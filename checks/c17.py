from common import STD
PROPERTY = "C17"
EXPLANATION = ("REDUCED CLAIM (not the property as stated): lock / atomic discipline of the engine state that several goroutines share. The real methods "
               "are executed by the symbolic interpreter, which checks at every access of a registered cell or map that the lock guarding it is held, and "
               "that a cell written with sync/atomic is never read or written plainly: flowTracker.flows (the inclusive join's picture of live flows), "
               "harness.active, harness.eventConsumers, Process.eventConsumers while a token runs through a task and events are delivered, and the flow data "
               "locator's maps. Data-race freedom of arbitrary engine runs under the race detector, and panic-freedom of the whole engine, are NOT decided "
               "(no race mode: code between two synchronisation operations is atomic in the encoding).")
ASSUMPTIONS = ["a lock-discipline violation on a shared cell is what the race detector reports when the two accesses overlap; the converse (every race is a discipline violation of a registered cell) only holds for the registered cells",
               "registered cells: flowTracker.flows, harness.active, harness.eventConsumers, Process.eventConsumers, FlowDataLocator.variables, FlowDataLocator.locators",
               "map iteration is checked at the start of the loop (the encoding takes the entries there)"]
SCENARIOS = [
    dict(name="C17 flowTracker lock discipline", entry="VerifC17_TrackerLock", K=30, reach=["registered", "done"], sequential=True, native=False,
         bounds="handleTrace (FlowTrace, TerminationTrace) and activeFlowsInCohort, executed one after the other", expect_obligations=[]),
    dict(name="C17 locator lock discipline", entry="VerifC17_LocatorLocks", harness="data", K=30, reach=["registered", "done"], sequential=True, native=False,
         bounds="SetVariable, GetVariable, CloneVariables, Put/FindIItemAwareLocator, CloneItems, Merge", expect_obligations=[]),
    dict(name="C17 event delivery while a task runs", entry="VerifC17_EventDelivery", K=120, reach=["registered", "done"], overrides=STD, native=False,
         bounds="one token through a task (stand-in activity inside the real harness), event deliveries before and after, one consumer registration", expect_obligations=[]),
    dict(name="C17 two tokens evaluate conditions at the same time", entry="VerifC17_ConcurrentConditions", K=60, reach=["registered", "done"], native=False,
         inits=["github.com/olive-io/bpmn/v2", "github.com/olive-io/bpmn/schema", "github.com/olive-io/bpmn/v2/pkg/expression"],
         overrides={k: v for k, v in STD.items() if "executeSequenceFlow" not in k},
         bounds="two flow objects of one instance each evaluating one conditional flow (2 symbolic booleans) in its own goroutine; real executeSequenceFlow, GetEngine, RegisterEngine; the registered engine is a stand-in that is not goroutine-safe and checks that it is never entered twice",
         expect_obligations=["an expression engine instance is never used by two goroutines at the same time", "a condition evaluated concurrently with another token's condition yields its own result"]),
]
