from common import STD
PROPERTY = "C01"
EXPLANATION = ("Decided per engine step, not per graph: the real flow loop (flow.Start, handleSequenceFlow, handleAdditionalSequenceFlow), the real task "
               "node (harness.run, genericTask.run, taskTrace) and the real start/end events, in instances built by the real NewProcess. A token "
               "arrives at a task with n outgoing flows (unconditional or conditional with solver-chosen truth values), the task is answered, "
               "and the visits of the downstream nodes are compared with the BPMN token game. Gateways are the subject of C03/C04/C05, completion "
               "of C02. Conformance of whole block-structured graphs is NOT claimed (paper argument only: tokens interact only through the nodes "
               "checked here).")
ASSUMPTIONS = ["expression engines replaced by an oracle returning one symbolic boolean per conditional flow",
               "tracer replaced by the synchronous stub (contract established by C09)",
               "downstream nodes are recording sinks; tasks are answered by a goroutine that answers the first request only (a re-request for the same token is observed, not followed)",
               "bounds: one token, 1..2 outgoing flows per task; one whole-instance micro-program (start -> task -> end) in the thorough tier"]
EO = ["an activity is requested exactly once per token",
      "the token continues on every outgoing flow that is unconditional or whose condition is true"]


def sc(entry, name, bounds, eo=EO, tiers=("quick", "thorough"), K=90):
    return dict(name=name, entry=entry, K=K, reach=["quiescent"], overrides=STD, tiers=tiers, expect_obligations=eo, bounds=bounds)


SCENARIOS = [
    sc("VerifC01_Task_U", "C01 task, 1 unconditional flow", "task with one unconditional outgoing flow"),
    sc("VerifC01_Task_UU", "C01 task, 2 unconditional flows", "task with two unconditional outgoing flows (implicit fork)"),
    sc("VerifC01_Task_C", "C01 task, 1 conditional flow", "task with one conditional outgoing flow, both truth values"),
    sc("VerifC01_Task_CC", "C01 task, 2 conditional flows", "task with two conditional outgoing flows, all 4 truth assignments"),
    sc("VerifC01_Task_UC", "C01 task, unconditional + conditional", "task with an unconditional and a conditional outgoing flow"),
    sc("VerifC01_Task_CU", "C01 task, conditional + unconditional", "task with a conditional and an unconditional outgoing flow"),
    sc("VerifC01e_Seq", "C01.e start -> task -> end (whole instance)", "real StartAll, task answered once, end reached",
       eo=["the instance reaches exactly the end events the token game reaches"], tiers=("thorough",), K=160),
    dict(name="C01.f conditions see the instance's current data", entry="VerifC01f_ConditionSeesCurrentData", K=30, reach=["built"], sequential=True,
         overrides={k: v for k, v in STD.items() if "executeSequenceFlow" not in k} | {"github.com/olive-io/bpmn/v2/pkg/expression.GetEngine": "verifGetEngine"},
         expect_obligations=["a condition is evaluated against the instance's data", "a condition evaluated after another token changed a variable sees the new value"],
         bounds="real flow.executeSequenceFlow on one token's flow object: condition 1, a variable written through the shared locator (as another token's task result is), condition 2 reading it, condition 1 again; 2 symbolic booleans; expression engine stand-in"),
]
