package bpmn

// C01.e micro-programs: whole instances built by the real NewProcess from schema literals.

func verifAnswerAll(inst *verifInst) {
	go func() {
		for {
			t := <-inst.tasks
			t.Do()
		}
	}()
}

// start -> a -> end
func VerifC01e_Seq() {
	b := verifNewB("p")
	b.start("s", "f1")
	b.flow("f1", "s", "a", false)
	b.task("a", []string{"f1"}, []string{"f2"})
	b.flow("f2", "a", "e", false)
	b.end("e", "f2")
	inst := verifNewInst(b)
	if inst.proc == nil {
		return
	}
	verifAnswerAll(inst)
	err := inst.proc.StartAll(inst.ctx)
	verifAssert(err == nil, "StartAll succeeds")
	verifQuiesce()
	verifReach("quiescent")
	verifAssert(inst.count("a") == 1, "task a requested exactly once")
	verifAssert(inst.count("done:e") == 1, "end event reached exactly once")
	verifAssert(inst.ceased == 1, "instance completed (cease-flow trace emitted once)")
}
