package bpmn

// C03.a: distributeFlows hands every outgoing flow to exactly one parked token.
func VerifC03a_Distribute() {
	a := verifNondetInt("A", 0, 4)
	f := verifNondetInt("F", 0, 4)
	awaiting := make([]chan IAction, 0, 4)
	for i := 0; i < a; i++ {
		awaiting = append(awaiting, make(chan IAction, 1))
	}
	flows := make([]*SequenceFlow, 0, 4)
	for i := 0; i < f; i++ {
		flows = append(flows, &SequenceFlow{})
	}
	verifReach("built")
	distributeFlows(awaiting, flows)
	// every channel got exactly one action; the handed-out slices partition flows in order
	next := 0
	for i := 0; i < a; i++ {
		verifAssert(len(awaiting[i]) == 1, "every parked token receives exactly one action")
		if len(awaiting[i]) != 1 {
			return
		}
		act := <-awaiting[i]
		switch x := act.(type) {
		case flowAction:
			verifAssert(len(x.sequenceFlows) > 0, "flowAction carries at least one flow")
			verifAssert(len(x.unconditionalFlows) == len(x.sequenceFlows), "all handed flows unconditional")
			for j, sf := range x.sequenceFlows {
				verifAssert(next < f && sf == flows[next], "flows handed out in order, no duplicates")
				verifAssert(x.unconditionalFlows[j] == j, "unconditional index")
				next++
			}
		case completeAction:
		default:
			verifAssert(false, "unexpected action kind")
		}
	}
	if a > 0 {
		verifAssert(next == f, "no outgoing flow lost")
	}
	verifReach("checked")
}
