PROPERTY = "C08"
EXPLANATION = ("Bounded symbolic execution of the real taskTrace.Do / taskTrace.process / timeout goroutine under a "
               "symbolic scheduler (every channel operation is a scheduling point, the choice at each step is an SMT variable).")
ASSUMPTIONS = ["task timeout = 0 in C08.a (the timeout goroutine returns immediately)"]
SCENARIOS = [
    dict(name="C08.a Do x1", entry="VerifC08a_Do1", K=40, reach=["quiescent"], bounds="1 Do call, 1 consumer",
         expect_obligations=["every Do call returns", "the consumer receives exactly one response"]),
    dict(name="C08.a Do x2 concurrent", entry="VerifC08a_Do2", K=40, reach=["quiescent"], bounds="2 concurrent Do calls",
         expect_obligations=["every Do call returns", "the consumer receives exactly one response"]),
    dict(name="C08.a Do x3 concurrent", entry="VerifC08a_Do3", K=40, reach=["quiescent"], bounds="3 concurrent Do calls",
         expect_obligations=["every Do call returns", "the consumer receives exactly one response"]),
    dict(name="C08.a Do x2 + cancel", entry="VerifC08a_Do2Cancel", K=40, reach=["quiescent"], bounds="2 concurrent Do calls, context cancelled at an arbitrary step",
         expect_obligations=["every Do call returns", "the consumer receives exactly one response"]),
]
