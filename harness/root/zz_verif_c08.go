package bpmn

import "context"

// C08.a: n Do calls on one task request (concurrent), optional cancellation of the task's context.
// Every Do returns; the consumer sees exactly one response.
func verifC08aDo(n int, withCancel bool) {
	ctx, cancel := context.WithCancel(context.Background())
	t := newTaskTraceBuilder().Context(ctx).Build()
	var returned, got int64
	for i := 0; i < n; i++ {
		go func() {
			t.Do()
			verifAdd(&returned, 1)
		}()
	}
	if withCancel {
		go func() {
			cancel()
		}()
	}
	go func() {
		<-t.out()
		verifAdd(&got, 1)
	}()
	verifQuiesce()
	verifReach("quiescent")
	verifAssert(verifGet(&returned) == int64(n), "every Do call returns")
	verifAssert(verifGet(&got) == 1, "the consumer receives exactly one response")
	_ = cancel
}

func VerifC08a_Do1()       { verifC08aDo(1, false) }
func VerifC08a_Do2()       { verifC08aDo(2, false) }
func VerifC08a_Do3()       { verifC08aDo(3, false) }
func VerifC08a_Do2Cancel() { verifC08aDo(2, true) }
