PROPERTY = "C13"
EXPLANATION = ("Real clock.Mock (Until/After/Set/lockedSet) with symbolic pending timers and symbolic clock moves; "
               "real timer.New / dateTimeTimer / recurringTimer goroutines against the real mock clock under a symbolic scheduler, "
               "with the parsed timer definition, the clock moves (drawn from a grid around the due times) and the cancellation point as solver variables.")
ASSUMPTIONS = ["time.Time is modelled as integer nanoseconds (monotonic-clock component ignored)",
               "sort.Sort replaced by an insertion sort over the same Less/Swap (stability not assumed)",
               "iso8601 parsers replaced by stubs returning the symbolic parsed value (the ISO-8601 text syntax is outside the claim)",
               "the host clock (pkg/clock/host*.go: real time, timerfd) is not covered"]
SCENARIOS = [
    dict(name="C13.a mock clock", entry="VerifC13a_MockSet", harness="clock", K=40, reach=["armed", "done"],
         overrides={"sort.Sort": "verifSort"}, max_instr=2000000, sequential=True,
         bounds="0..3 pending timers (Until or After) with due times from a 7-point grid around the clock values, two consecutive clock moves from a 4- and 6-point grid (all order relations between due times and clock values occur)",
         expect_obligations=["every timer due at the new time fires exactly once", "a due timer is sent the new time",
                             "a pending timer is not lost: it fires at the later move", "a timer that has fired never fires again"]),
    dict(name="C13.a mock clock, 3 timers", entry="VerifC13a_MockSet3", harness="clock", K=60, reach=["armed", "done"], tiers=("thorough",),
         overrides={"sort.Sort": "verifSort"}, max_instr=2000000, sequential=True,
         bounds="0..3 pending timers, grid as above", expect_obligations=["every timer due at the new time fires exactly once"]),
]
ISO = "github.com/qri-io/iso8601."
TOV = {"sort.Sort": "verifSort", ISO + "ParseTime": "verifParseTime", ISO + "ParseDuration": "verifParseDuration",
       ISO + "ParseRepeatingInterval": "verifParseRepeatingInterval"}


def tsc(entry, name, bounds, eo, tiers=("quick", "thorough"), K=70):
    return dict(name=name, entry=entry, harness="timer", K=K, reach=["quiescent"], overrides=TOV, tiers=tiers, native=False,
                expect_obligations=eo, bounds=bounds)


G = "clock moves are non-decreasing values on a 10-point grid (step = half an interval) chosen by the solver"
SCENARIOS += [
    tsc("VerifC13b_Date_M2", "C13.b date timer, 2 moves", "date timer due at creation..+2 intervals (5-point grid), 2 clock moves by a free-running clock thread; " + G,
        ["a timer never fires before the clock reaches its due time", "a date or duration timer fires exactly once when the clock has reached its due time"]),
    tsc("VerifC13b_Duration_M2", "C13.b duration timer, 2 moves", "duration 0..2 intervals, 2 moves, free-running clock thread; " + G,
        ["a timer never fires before the clock reaches its due time", "a date or duration timer fires exactly once when the clock has reached its due time"]),
    tsc("VerifC13b_R1_M2", "C13.b cycle R1, 2 moves", "R1/interval, driver quiescent between moves; " + G,
        ["a cycle timer fires exactly as often as its definition and the clock moves prescribe"]),
    tsc("VerifC13b_R0_M2", "C13.b cycle R0, 2 moves", "R0/interval; " + G,
        ["a cycle timer fires exactly as often as its definition and the clock moves prescribe"]),
    tsc("VerifC13b_R2_M2", "C13.b cycle R2, 2 moves", "R2/interval, 2 moves, quiescent driver; " + G,
        ["a cycle timer fires exactly as often as its definition and the clock moves prescribe",
         "consecutive firings of a cycle timer are at least one interval of clock time apart (no burst within one clock move)"]),
    tsc("VerifC13b_R2_Start_M1", "C13.b cycle R2 with start, 1 move", "R2/start(+half interval)/interval, 1 move; " + G,
        ["a cycle timer fires exactly as often as its definition and the clock moves prescribe"]),
    tsc("VerifC13b_R2_Start_M2", "C13.b cycle R2 with start, 2 moves", "R2/start(+half interval)/interval, 2 moves (7-point grid); " + G,
        ["a cycle timer fires exactly as often as its definition and the clock moves prescribe"], tiers=("thorough",)),
    tsc("VerifC13b_R3_End_M2", "C13.b cycle R3 with end, 2 moves", "R3/interval/end(+2.6 intervals), 2 moves; " + G,
        ["a cycle timer fires exactly as often as its definition and the clock moves prescribe", "a cycle timer never fires at or after its end bound"]),
    tsc("VerifC13b_R2_M3", "C13.b cycle R2, 3 moves", "R2/interval, 3 moves, quiescent driver; " + G,
        ["a cycle timer fires exactly as often as its definition and the clock moves prescribe"], tiers=("thorough",), K=90),
    tsc("VerifC13b_R2_Start_M3", "C13.b cycle R2 with start, 3 moves", "R2/start(+half interval)/interval, 3 moves; " + G,
        ["a cycle timer fires exactly as often as its definition and the clock moves prescribe"], tiers=("thorough",), K=90),
    tsc("VerifC13b_R3_End_M3", "C13.b cycle R3 with end, 3 moves", "R3/interval/end(+2.6 intervals), 3 moves; " + G,
        ["a cycle timer fires exactly as often as its definition and the clock moves prescribe"], tiers=("thorough",), K=90),
    tsc("VerifC13b_R2_Free_M2", "C13.b cycle R2, free-running clock", "R2/interval, 2 moves by a free-running clock thread (all interleavings with the timer goroutines); " + G,
        ["a cycle timer's k-th firing never comes before start + k intervals of clock time"], tiers=("thorough",)),
    tsc("VerifC13b_Cancel_Date", "C13.b cancel then move (date)", "date timer armed, context cancelled, then the clock passes the due time",
        ["a timer never fires after its context was cancelled"]),
    tsc("VerifC13b_Cancel_Cycle", "C13.b cancel then move (cycle)", "R2 cycle timer armed, context cancelled, then the clock passes two intervals",
        ["a timer never fires after its context was cancelled"]),
    tsc("VerifC13b_R3_M3", "C13.b cycle R3, 3 moves", "R3/interval, 3 moves; " + G,
        ["a cycle timer fires exactly as often as its definition and the clock moves prescribe"], tiers=("thorough",)),
    tsc("VerifC13b_Rinf_M3", "C13.b cycle unbounded, 3 moves", "R/interval (unbounded), 3 moves; " + G,
        ["a cycle timer fires exactly as often as its definition and the clock moves prescribe"], tiers=("thorough",)),
    tsc("VerifC13b_R2_StartEnd_M3", "C13.b cycle R2 start+end, 3 moves", "R2/start/interval/end, 3 moves; " + G,
        ["a cycle timer fires exactly as often as its definition and the clock moves prescribe"], tiers=("thorough",)),
    tsc("VerifC13b_R2_Start_Free_M2", "C13.b cycle R2 with start, free-running clock", "R2/start/interval, 2 moves, free-running clock thread; " + G,
        ["a cycle timer's k-th firing never comes before start + k intervals of clock time"], tiers=("thorough",)),
    tsc("VerifC13b_Date_M3", "C13.b date timer, 3 moves", "3 moves, free-running clock thread; " + G,
        ["a timer never fires before the clock reaches its due time"], tiers=("thorough",)),
]
