from common import STD
PROPERTY = "C03"
EXPLANATION = ("distributeFlows for all numbers of parked tokens / outgoing flows; one inductive step of the gateway's counter "
               "logic from an arbitrary valid state; the real parallel gateway (newParallelGateway, run, NextAction, flowWhenReady) "
               "with N concurrently arriving tokens and R consecutive activations under a symbolic scheduler.")
ASSUMPTIONS = ["upstream tokens are harness goroutines calling the real NextAction (the flow loop itself is checked in C01/C04)",
               "tracer replaced by the synchronous stub (contract established by C09)"]
EO = ["nothing is released before a token has arrived on every incoming flow",
      "every arrived token is answered once all have arrived (none waits forever)",
      "each outgoing flow receives exactly one token per activation",
      "nothing is carried into the next activation"]


def proto(n, m, r, tiers, K=80):
    return dict(name="C03.c gateway %dx%d R%d" % (n, m, r), entry="VerifC03c_%dx%d_R%d" % (n, m, r), K=K, reach=["quiescent"],
                overrides=STD, tiers=tiers, expect_obligations=EO,
                bounds="N=%d incoming, M=%d outgoing, %d consecutive activations, all arrival orders and interleavings" % (n, m, r))


SCENARIOS = [
    dict(name="C03.a distributeFlows", entry="VerifC03a_Distribute", K=40, reach=["built", "checked"], require_native=True,
         bounds="A=len(awaiting) in 0..4, F=len(flows) in 0..4 (symbolic)",
         expect_obligations=["no outgoing flow lost", "flows handed out in order, no duplicates"]),
    dict(name="C03.b counter step (inductive)", entry="VerifC03b_CounterStep", K=40, reach=["state built"], require_native=True,
         bounds="N in 1..4, reported in 0..N-1 (symbolic pre-state)",
         expect_obligations=["release resets the gateway", "release answers every parked token", "nothing is sent before the last arrival"]),
    proto(1, 1, 2, ("quick", "thorough")),
    proto(2, 1, 2, ("quick", "thorough")),
    proto(1, 2, 2, ("quick", "thorough")),
    proto(2, 2, 2, ("quick", "thorough")),
    dict(proto(2, 1, 1, ("quick", "thorough")), name="C03.c gateway 2x1 R1, lagging tokens", entry="VerifC03c_2x1_R1_Lag",
         bounds="N=2, M=1, one activation; every token may be descheduled between asking the gateway and waiting for its answer"),
    dict(proto(2, 2, 1, ("quick", "thorough")), name="C03.c gateway 2x2 R1, lagging tokens", entry="VerifC03c_2x2_R1_Lag",
         bounds="N=2, M=2, one activation; every token may be descheduled between asking the gateway and waiting for its answer"),
    dict(proto(3, 2, 1, ("thorough",), K=120), name="C03.c gateway 3x2 R1, lagging tokens", entry="VerifC03c_3x2_R1_Lag",
         bounds="N=3, M=2, one activation, lagging tokens"),
    proto(3, 2, 2, ("thorough",), K=120),
    proto(2, 3, 2, ("thorough",), K=120),
    proto(3, 1, 2, ("thorough",), K=120),
    proto(1, 3, 2, ("thorough",), K=120),
    proto(3, 3, 2, ("thorough",), K=140),
]
