#!/bin/bash
# runs every registered thorough check once (long), N at a time (default 6); prints exit code and summary line per property.
# Evidence goes to VERIF_EVIDENCE_DIR (default /tmp/ev_thorough) so that the committed quick-tier evidence is not overwritten.
cd "$(dirname "$0")/.."
N=${1:-6}
one() { P=$1; S=$(date +%s); OUT=$(VERIF_EVIDENCE_DIR=${VERIF_EVIDENCE_DIR:-/tmp/ev_thorough} ./check $P --tier thorough 2>&1); RC=$?; E=$(date +%s)
  echo "$P rc=$RC $((E-S))s | $(echo "$OUT" | tail -1)
$(echo "$OUT" | grep "^VIOLATION\|^UNCONFIRMED\|^INCONCLUSIVE" | cut -c1-200)"; }
export -f one
python3 -c "import json;print('\n'.join(c['property_id'] for c in json.load(open('MANIFEST.json'))['checks']))" | xargs -P $N -I{} bash -c 'one {}'
