from common import STD
PROPERTY = "C07"
EXPLANATION = ("Reduced claim: a token waits at a task whose request is pending (real flow loop, harness.run, genericTask.run, taskTrace.process) "
               "and the context is cancelled by a goroutine of its own, so the cancellation point ranges over the whole scenario under the symbolic "
               "scheduler. Decided: every token's goroutine exits (the flow wait group reaches zero), the token does not move on, the request is not "
               "repeated. Termination of the real tracers after cancellation is covered by C09's cancellation scenario (thorough tier); timers by C13's "
               "cancel scenarios. The corpus of the property (gateways mid-synchronisation, listening catch events, sub-processes, boundary listeners) and "
               "goroutine-leak freedom of node goroutines are NOT covered.")
ASSUMPTIONS = ["tracer replaced by the synchronous stub (so tracer termination is not part of this scenario)",
               "one program (token at a pending task); other node kinds of the property's corpus are outside the registered bounds"]
SCENARIOS = [
    dict(name="C07 cancel while a task request is pending", entry="VerifC07_PendingTask", K=120, reach=["quiescent"], overrides=STD,
         expect_obligations=["a cancelled instance does not move on"],
         bounds="one token at a pending task, cancellation at every point of every interleaving"),
]
